"""C03 - assignability of a concrete value: promotion table, type-strict literal equality, container coverage."""

from __future__ import annotations

import ast
from typing import Dict, List, Optional, Set, Tuple

from ..model import AnchorError, Program, dotted, kw, last_attr, norm, parent, walk_no_nested
from ..report import Check, guard
from .common import calls_in, guards_of, need_locals, returns_of


def promotion_edges(prog: Program) -> Set[Tuple[str, str]]:
    """(sub, sup) pairs that TypeObject.__post_init__ adds as artificial bases."""
    fn = prog.func("type_object", "TypeObject.__post_init__")
    edges: Set[Tuple[str, str]] = set()
    for n in walk_no_nested(fn):
        if not isinstance(n, ast.If):
            continue
        guard_cls = None
        t = n.test
        parts = t.values if isinstance(t, ast.BoolOp) and isinstance(t.op, ast.Or) else [t]
        for p in parts:
            if isinstance(p, ast.Compare) and norm(p.left) == "self.typ" and isinstance(p.ops[0], ast.Is) and isinstance(p.comparators[0], ast.Name):
                guard_cls = p.comparators[0].id
            if isinstance(p, ast.Call) and last_attr(p) in ("safe_in",) and p.args and isinstance(p.args[0], ast.Name) and "base_classes" in norm(p.args[1]):
                guard_cls = guard_cls or p.args[0].id
        if norm(t) == "self.is_thrift_enum":
            guard_cls = "<thrift enum>"
        if guard_cls is None:
            continue
        for s in n.body:
            if isinstance(s, ast.Expr) and isinstance(s.value, ast.Call) and norm(s.value.func) == "self.artificial_bases.add" and s.value.args:
                edges.add((guard_cls, norm(s.value.args[0])))
    return edges


def r03_a(prog: Program, chk: Check) -> None:
    chk.rule("R03.a", "numeric promotion table: artificial bases are exactly int->float, int->complex, float->complex and are merged into base_classes", floor=5)
    fn = prog.func("type_object", "TypeObject.__post_init__")
    site = prog.site("type_object", fn)
    edges = promotion_edges(prog)
    want = {("int", "float"), ("int", "complex"), ("float", "complex")}
    thrift = {("<thrift enum>", "int")}
    for e in sorted(want):
        chk.ob("R03.a", f"type_object::TypeObject.__post_init__::promotion::{e[0]}->{e[1]}", e in edges, site, f"{e[0]} must be promoted to {e[1]} (typing spec: special cases for float and complex)")
    extra = edges - want - thrift
    chk.ob("R03.a", "type_object::TypeObject.__post_init__::no-other-promotion", not extra, site, f"unexpected artificial base edges {sorted(extra)}: e.g. float->int or anything into bool would accept non-members")
    merged = any(isinstance(n, ast.AugAssign) and norm(n.target) == "self.base_classes" and isinstance(n.op, ast.BitOr) and norm(n.value) == "self.artificial_bases" for n in walk_no_nested(fn))
    chk.ob("R03.a", "type_object::TypeObject.__post_init__::merged-into-base_classes", merged, site, "artificial bases must be merged into base_classes so that nominal checks see them")
    mro = any(isinstance(n, ast.AugAssign) and norm(n.target) == "self.base_classes" and "get_mro(self.typ)" in norm(n.value) for n in walk_no_nested(fn))
    chk.ob("R03.a", "type_object::TypeObject.__post_init__::real-mro", mro, site, "base_classes must contain the real MRO (bool reaches int only through it)")


def r03_b(prog: Program, chk: Check) -> None:
    chk.rule("R03.b", "literal equality is type-strict wherever it decides assignability or value identity", floor=5)
    ci = prog.cls("KnownValue")
    ca = ci.methods["can_assign"]
    need_locals(ca, "other")
    ok = False
    for n in walk_no_nested(ca):
        if isinstance(n, ast.If) and "safe_equals(self.val, other.val)" in norm(n.test):
            ok = "type(self.val) is type(other.val)" in norm(n.test) and isinstance(n.test, ast.BoolOp) and isinstance(n.test.op, ast.And)
    chk.ob("R03.b", "value::KnownValue.can_assign::type-strict", ok, prog.site("value", ca), "equal literals are only interchangeable when their types are identical (True is not Literal[1])")
    eq = ci.methods["__eq__"]
    need_locals(eq, "other")
    t = norm(eq)
    chk.ob("R03.b", "value::KnownValue.__eq__::type-strict", "type(self.val) is type(other.val)" in t and "safe_equals(self.val, other.val)" in t and " and " in t, prog.site("value", eq), "KnownValue equality must require identical payload types")
    h = ci.methods["__hash__"]
    rets = [norm(r.value) for r in returns_of(h) if r.value is not None]
    chk.ob("R03.b", "value::KnownValue.__hash__::keys-on-type", all("type(self.val)" in r for r in rets) and bool(rets), prog.site("value", h), "the hash must include the payload type so that 1 and True do not collide into one union member")
    mv = prog.cls("MultiValuedValue")
    ks = mv.methods["_get_known_subvals"]
    need_locals(ks, "subval")
    t = norm(ks)
    chk.ob("R03.b", "value::MultiValuedValue._get_known_subvals::keys-on-type", "(subval.val, type(subval.val))" in t, prog.site("value", ks), "the literal lookup table of large unions must be keyed by (value, type)")
    mc = mv.methods["can_assign"]
    need_locals(mc, "other", "known_values")
    t = norm(mc)
    chk.ob("R03.b", "value::MultiValuedValue.can_assign::lookup-keys-on-type", "(other.val, type(other.val)) in known_values" in t, prog.site("value", mc), "the literal fast path must look up (value, type)")


LITERAL_CONTAINERS = ["list", "tuple", "set", "frozenset", "dict"]


def r03_c(prog: Program, chk: Check) -> None:
    chk.rule("R03.c", "literal-container coverage: list, tuple, set, frozenset and dict literals are decomposed element-wise by replace_known_sequence_value", floor=5)
    fn = prog.func("value", "replace_known_sequence_value")
    need_locals(fn, "value")
    handled: Set[str] = set()
    for n in walk_no_nested(fn):
        if isinstance(n, ast.Call) and last_attr(n) == "isinstance" and len(n.args) == 2 and norm(n.args[0]) == "value.val":
            spec = n.args[1]
            for e in spec.elts if isinstance(spec, ast.Tuple) else [spec]:
                handled.add(norm(e))
    for c in LITERAL_CONTAINERS:
        chk.ob(
            "R03.c",
            f"value::replace_known_sequence_value::decomposes={c}",
            c in handled,
            prog.site("value", fn),
            f"a {c} literal is not decomposed: it is compared as a bare TypedValue({c}) whose type arguments default to Any, so every {c}[T] accepts it",
        )


# ------------------------------------------------------------------- R03.e
def r03_e(prog: Program, chk: Check) -> None:
    from . import assign_model as amod

    chk.rule(
        "R03.e",
        "assignability of a concrete object as a finite model: KnownValue / TypedValue / MultiValuedValue / AnyValue / Value.can_assign and TypeObject (__post_init__ with the real "
        "MRO, can_assign, is_assignable_to_type, is_instance) are interpreted from their AST with real runtime objects and classes as payloads: for each of 12 objects (bools, ints, "
        "a float, a complex, strings, None, enum members) and each type of the domain (8 classes, literals, unions, a union of 11 members taking the known-literal fast path, Never) "
        "the object is accepted exactly when it is a member (isinstance, with int -> float -> complex promotion; literals type-strict)",
        floor=2,
    )
    am = amod.AssignModel(prog)
    U = amod.UNIVERSE
    lits = [am.known(o) for o in U]
    typs = [am.typed(t) for t in amod.TYPES]
    unions = [am.union([am.typed(a), am.typed(b)]) for a, b in ((int, str), (bool, str), (float, type(None)), (complex, amod.Color))] + [am.union([am.known(1), am.known("a")]), am.union([am.known(True), am.typed(str)])]
    big = am.with_known_subvals(am.union([am.known(i) for i in range(9)] + [am.known("a"), am.typed(str)]))
    big2 = am.with_known_subvals(am.union([am.known(i) for i in range(12)]))
    targets = [am.never] + lits + typs + unions + [big, big2]
    accepted_nonmember, rejected_member, crashes = [], [], []
    n = 0
    for T in targets:
        mt = amod.members(T)
        for i, o in enumerate(U):
            n += 1
            r = am.can_assign(T, am.known(o))
            d = {"type": amod.show(T), "object": repr(o)}
            if isinstance(r, tuple):
                crashes.append({**d, "error": r[1]})
            elif r and i not in mt:
                accepted_nonmember.append(d)
            elif not r and i in mt:
                rejected_member.append(d)
    chk.model_evaluations += n
    chk.analysed["assign_model_objects"] = {"checks": n}
    site = prog.site("value", prog.find_method("TypedValue", "can_assign")[1])  # type: ignore[index]
    chk.ob("R03.e", "value::assignability-model::object-accepted-only-if-member", not accepted_nonmember, site, f"{n} (type, object) pairs, {len(accepted_nonmember)} non-members accepted" + (f"; first: {accepted_nonmember[0]}" if accepted_nonmember else ""), witness=accepted_nonmember[:5])
    chk.ob("R03.e", "value::assignability-model::member-object-accepted", not rejected_member, site, f"{n} (type, object) pairs, {len(rejected_member)} members rejected" + (f"; first: {rejected_member[0]}" if rejected_member else ""), witness=rejected_member[:5])
    chk.ob("R03.e", "value::assignability-model::no-crash", not crashes, site, f"{len(crashes)} crashes" + (f"; first: {crashes[0]}" if crashes else ""), witness=crashes[:3])


# ------------------------------------------------------------------- R03.f
def _shape_of(spec) -> str:
    tag = spec[0]
    if tag in ("cls", "lit", "any"):
        return "scalar type"
    if tag == "union":
        return "union"
    if tag == "td":
        return "TypedDict"
    return {"list": "list[...]", "set": "set[...]", "frozenset": "frozenset[...]", "seq": "Sequence[...]", "iter": "Iterable[...]", "tuple*": "tuple[X, ...]", "tuple": "tuple[X, Y]", "tupv": "tuple[X, *tuple[Y, ...]]", "dict": "dict[K, V]", "map": "Mapping[K, V]"}[tag]


def _container_chunk(args):
    part, nparts = args
    from ..model import AnchorError as _AE
    from ..model import Program as _P
    from . import container_model as cmod

    m = cmod.ContainerModel(_P())
    classes = {}
    unsupported = []
    n = 0
    todo = [(spec, cmod.OBJECTS) for spec in cmod.type_specs()] + [(spec, cmod.TD_OBJECTS) for spec in cmod.typeddict_specs()]
    for idx, (spec, objects) in enumerate(todo):
        if idx % nparts != part:
            continue
        T = m.value_of(spec)
        shape = _shape_of(spec)
        for o in objects:
            n += 1
            d = {"type": cmod.spec_str(spec), "object": repr(o)}
            try:
                r = m.can_assign(T, m.known(o))
            except _AE as e:
                unsupported.append({**d, "why": str(e)[:300]})
                continue
            exp = cmod.member(o, spec)
            for key, bad in (
                (f"{shape}::no-crash", isinstance(r, tuple)),
                (f"{shape}::a non-member is rejected", (not isinstance(r, tuple)) and r and not exp),
                (f"{shape}::a member is accepted", (not isinstance(r, tuple)) and (not r) and exp),
            ):
                c = classes.setdefault(key, {"n": 0, "bad": []})
                c["n"] += 1
                if bad:
                    c["bad"].append({**d, **({"error": r[1]} if isinstance(r, tuple) else {})})
    return n, classes, unsupported


def r03_f(prog: Program, chk: Check) -> None:
    import multiprocessing as mp
    import os as _os

    chk.rule(
        "R03.f",
        "structural assignability of a concrete object as a finite model: on top of R03.e, GenericValue / SequenceValue.can_assign, replace_known_sequence_value and "
        "TypedValue.get_generic_args_for_type are interpreted from their AST (the generic bases of the builtin containers are a table of typeshed facts) for 38 real objects "
        "(scalars, lists, tuples, sets, frozensets, dicts, nested one level) against 123 types (list / set / frozenset / Sequence / Iterable / tuple[X, ...] / tuple[X, Y] / "
        "tuple[()] / tuple[X, *tuple[Y, ...], Z] with one unpacked member / dict / Mapping over 7 element types, nested containers, unions), and TypedDictValue.can_assign for 21 dict objects against 180 TypedDicts (required / NotRequired / ReadOnly items, open, closed, typed extra items): the object is accepted exactly when it is a structural member",
        floor=20,
    )
    procs = 2 if _os.environ.get("VERIF_SELFTEST") else min(16, _os.cpu_count() or 1)
    with mp.get_context("fork").Pool(procs) as pl:
        results = pl.map(_container_chunk, [(i, procs * 2) for i in range(procs * 2)])
    total = 0
    merged = {}
    unsupported = []
    for n, classes, uns in results:
        total += n
        unsupported += uns
        for k, c in classes.items():
            mm = merged.setdefault(k, {"n": 0, "bad": []})
            mm["n"] += c["n"]
            mm["bad"] += c["bad"]
    chk.model_evaluations += total
    chk.analysed["container_model_objects"] = {"checks": total, "not_modelled": len(unsupported)}
    site = prog.site("value", prog.find_method("GenericValue", "can_assign")[1])  # type: ignore[index]
    for k, c in sorted(merged.items()):
        bad = sorted(c["bad"], key=lambda d: (len(d["type"]) + len(d["object"]), repr(d)))
        chk.ob("R03.f", f"value::container-model::{k}", not bad, site, f"{c['n']} (type, object) pairs, {len(bad)} failing" + (f"; smallest: {bad[0]}" if bad else ""), witness=bad[:5])
    if unsupported:
        raise AnchorError(f"{len(unsupported)} (type, object) pairs cannot be modelled; first: {unsupported[0]}")


# ------------------------------------------------------------------- R03.g
_NONE = type(None)
_I, _S, _O = ("cls", int), ("cls", str), ("cls", object)
# annotation as written -> the container-model type (R03.f decides membership for these) it must denote
R03G_FORMS = (
    ("int", _I), ("str", _S), ("object", _O), ("None", ("cls", _NONE)), ("Literal[1]", ("lit", 1)), ("Literal['a']", ("lit", "a")),
    ("Tuple", ("cls", tuple)), ("tuple", ("cls", tuple)), ("List", ("cls", list)), ("list", ("cls", list)), ("Dict", ("cls", dict)), ("dict", ("cls", dict)),
    ("Set", ("cls", set)), ("FrozenSet", ("cls", frozenset)),
    ("Tuple[()]", ("tuple", ())), ("tuple[()]", ("tuple", ())),
    ("Tuple[int]", ("tuple", (_I,))), ("tuple[int]", ("tuple", (_I,))), ("Tuple[int, str]", ("tuple", (_I, _S))), ("tuple[int, str]", ("tuple", (_I, _S))),
    ("Tuple[int, str, int]", ("tuple", (_I, _S, _I))),
    ("Tuple[int, ...]", ("tuple*", _I)), ("tuple[str, ...]", ("tuple*", _S)),
    ("Tuple[int, Unpack[Tuple[str, ...]]]", ("tupv", (_I,), _S, ())), ("tuple[int, *tuple[str, ...]]", ("tupv", (_I,), _S, ())),
    ("Tuple[Unpack[Tuple[str, ...]], int]", ("tupv", (), _S, (_I,))), ("tuple[int, *tuple[str, ...], int]", ("tupv", (_I,), _S, (_I,))),
    ("Tuple[int, str, Unpack[Tuple[int, ...]]]", ("tupv", (_I, _S), _I, ())),
    ("List[int]", ("list", _I)), ("list[str]", ("list", _S)), ("Set[int]", ("set", _I)), ("set[int]", ("set", _I)), ("FrozenSet[str]", ("frozenset", _S)), ("frozenset[int]", ("frozenset", _I)),
    ("Sequence[int]", ("seq", _I)), ("Iterable[str]", ("iter", _S)), ("Dict[str, int]", ("dict", _S, _I)), ("dict[int, str]", ("dict", _I, _S)), ("Mapping[str, int]", ("map", _S, _I)),
    ("Optional[int]", ("union", (_I, ("cls", _NONE)))), ("Union[int, str]", ("union", (_I, _S))), ("int | str", ("union", (_I, _S))), ("int | None", ("union", (_I, ("cls", _NONE)))),
    ("Literal[1, 'a']", ("union", (("lit", 1), ("lit", "a")))),
    ("List[Tuple[int, str]]", ("list", ("tuple", (_I, _S)))), ("Dict[str, List[int]]", ("dict", _S, ("list", _I))), ("Tuple[List[int], ...]", ("tuple*", ("list", _I))),
    ("List[Optional[int]]", ("list", ("union", (_I, ("cls", _NONE))))), ("Tuple[Tuple[()], Tuple[()]]", ("tuple", (("tuple", ()), ("tuple", ())))),
    ("Annotated[List[int], 'meta']", None),  # placeholder: decided by R13.5, skipped here
)


def _spec_of_value(v):
    """The container-model type a model value denotes, or a description of what it is instead."""
    import collections.abc as CA
    from . import annot_model as am

    if not isinstance(v, am.SV):
        return ("?", repr(v)[:80])
    k, a = v._kind, v._attrs
    if k == "TypedValue":
        return ("cls", a["typ"])
    if k == "KnownValue":
        return ("cls", _NONE) if a["val"] is None else ("lit", a["val"])
    if k == "AnyValue":
        return ("any", str(a.get("source")))
    if k == "MultiValuedValue":
        return ("union", frozenset(_spec_of_value(x) for x in a["vals"]))
    if k == "GenericValue":
        tags = {list: "list", set: "set", frozenset: "frozenset", CA.Sequence: "seq", CA.Iterable: "iter", tuple: "tuple*"}
        if a["typ"] in tags and len(a["args"]) == 1:
            return (tags[a["typ"]], _spec_of_value(a["args"][0]))
        if a["typ"] in (dict, CA.Mapping) and len(a["args"]) == 2:
            return ("dict" if a["typ"] is dict else "map", _spec_of_value(a["args"][0]), _spec_of_value(a["args"][1]))
        return ("?", am.describe(v))
    if k == "SequenceValue" and a["typ"] is tuple:
        flags = [bool(m) for m, _ in a["members"]]
        specs = tuple(_spec_of_value(x) for _, x in a["members"])
        if not any(flags):
            return ("tuple", specs)
        if flags.count(True) == 1:
            i = flags.index(True)
            return ("tupv", specs[:i], specs[i], specs[i + 1:])
    return ("?", am.describe(v))


def _norm_spec(spec):
    if spec[0] == "union":
        return ("union", frozenset(_norm_spec(x) for x in spec[1]))
    if spec[0] in ("list", "set", "frozenset", "seq", "iter", "tuple*"):
        return (spec[0], _norm_spec(spec[1]))
    if spec[0] in ("dict", "map"):
        return (spec[0], _norm_spec(spec[1]), _norm_spec(spec[2]))
    if spec[0] == "tuple":
        return ("tuple", tuple(_norm_spec(x) for x in spec[1]))
    if spec[0] == "tupv":
        return ("tupv", tuple(_norm_spec(x) for x in spec[1]), _norm_spec(spec[2]), tuple(_norm_spec(x) for x in spec[3]))
    return spec


def r03_g(prog: Program, chk: Check) -> None:
    from . import annot_model as am

    chk.rule(
        "R03.g",
        "annotation forms denote the types whose membership R03.e / R03.f decide: each written form of the table (bare and subscripted List / Dict / Set / FrozenSet / Tuple and the builtin "
        "generics, tuple[()], fixed, homogeneous and unpacked tuples, Sequence / Iterable / Mapping, Optional / Union / |, Literal, one level of nesting), read by the interpreted annotation "
        "routes of R13.5 (from the AST, from a string, from the runtime object CPython evaluates it to), is the value of the container model for the type the typing documentation gives it",
        floor=3,
    )
    m = am.AnnotModel(prog)
    ns = am.namespace()
    site = prog.site("annotations", prog.func("annotations", "_value_of_origin_args"))
    wrong = {"ast": [], "string": [], "runtime": []}
    unsupported = []
    n = 0
    for src, spec in R03G_FORMS:
        if spec is None:
            continue
        want = _norm_spec(spec)
        for route in ("ast", "string", "runtime"):
            n += 1
            try:
                arg = eval(src, dict(ns)) if route == "runtime" else src
                r = getattr(m, "via_" + route)(arg, dict(ns))
            except AnchorError as e:
                unsupported.append(f"{src} ({route}): {e}")
                continue
            got = _spec_of_value(r[0]) if isinstance(r, tuple) and r and not isinstance(r[0], str) else ("?", repr(r)[:120])
            errors = r[1] if isinstance(r, tuple) and len(r) > 1 and not isinstance(r[0], str) else []
            if got != want or errors:
                wrong[route].append({"annotation": src, "route": route, "expected": cmod_str(spec), "read as": am.describe(r[0]) if isinstance(r, tuple) and r and isinstance(r[0], am.SV) else repr(r)[:200], **({"errors": list(errors)[:2]} if errors else {})})
    chk.model_evaluations += n
    for route, bad in wrong.items():
        bad.sort(key=lambda d: (len(d["annotation"]), d["annotation"]))
        chk.ob("R03.g", f"annotations::annotation-meaning::{route}", not bad, site, f"{len([f for f in R03G_FORMS if f[1] is not None])} annotation forms, {len(bad)} read as another type" + (f"; smallest: {bad[0]}" if bad else ""), witness=bad[:5])
    if unsupported:
        raise AnchorError(f"{len(unsupported)} annotation forms cannot be modelled; first: {unsupported[0]}")


def cmod_str(spec) -> str:
    from . import container_model as cmod

    return cmod.spec_str(spec)


def run(prog: Program, chk: Check) -> None:
    from .c04 import early_accept_rule

    guard(chk, early_accept_rule, prog, chk, "R03.d")
    guard(chk, r03_a, prog, chk)
    guard(chk, r03_b, prog, chk)
    guard(chk, r03_c, prog, chk)
    guard(chk, r03_e, prog, chk)
    guard(chk, r03_f, prog, chk)
    guard(chk, r03_g, prog, chk)
