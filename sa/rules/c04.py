"""C04 - type-to-type assignability: lattice laws decided by abstract dispatch
over can_assign of every static-type class."""

from __future__ import annotations

import ast
from typing import Dict, List, Optional, Set, Tuple

from ..adi import BOOL_UNIVERSE, FALSE, TRUE, Interp, UnarySummary, Universe
from ..model import AnchorError, Program, dotted, last_attr, norm, parent, walk_no_nested
from ..report import Check, guard
from .common import INTERNAL_VALUE_KINDS, SINGLETONS, calls_in, guards_of, local_assignments, need_locals, returns_of, value_universe

PSEUDO = {"Never": "MultiValuedValue"}
SINGLETONS_N = dict(SINGLETONS, NO_RETURN_VALUE="Never")

# receivers that do not denote a static type of the property's universe
RECEIVER_EXCLUDED = dict(INTERNAL_VALUE_KINDS)
RECEIVER_EXCLUDED.update(
    {
        "UninitializedValue": "marker for unbound names, never a declared type",
        "SyntheticModuleValue": "module objects are not static types",
        "ParamSpecArgsValue": "P.args marker, only meaningful inside a signature",
        "ParamSpecKwargsValue": "P.kwargs marker, only meaningful inside a signature",
        "TypeVarValue": "acceptance is delegated to the bound solver (decided under C15, not here)",
    }
)

ACCEPT, REJECT, INDUCTIVE, UNKNOWN, PROPAGATED, EXTENSION = "ACCEPT", "REJECT", "INDUCTIVE", "UNKNOWN", "PROPAGATED", "EXTENSION"


def _universe(prog: Program) -> Universe:
    u = value_universe(prog)
    return Universe("class", frozenset(set(u.atoms) | {"Never"}), "Value")


def _is_inductive_call(e: ast.AST, other_key: str) -> Optional[str]:
    """X.can_assign(<other>, ctx) / X.can_be_assigned(...) / X.is_assignable(...) where the checked
    value is the unchanged tracked `other`.  Returns a description or None."""
    if not (isinstance(e, ast.Call) and isinstance(e.func, ast.Attribute)):
        return None
    if e.func.attr not in ("can_assign", "can_assign_thrift_enum"):
        if e.func.attr == "can_be_assigned" and isinstance(e.func.value, ast.Name) and e.func.value.id == other_key:
            return "other.can_be_assigned(self)"
        return None
    if len(e.args) >= 1 and isinstance(e.args[0], ast.Name) and e.args[0].id in (other_key, "original_other"):
        return norm(e.func.value) + ".can_assign(other)"
    # type-object level check: tobj.can_assign(self, other, ctx)
    if len(e.args) >= 2 and isinstance(e.args[1], ast.Name) and e.args[1].id == other_key:
        return norm(e.func.value) + ".can_assign(self, other)"
    return None


class Outcome:
    def __init__(self) -> None:
        self.items: List[Tuple[str, ast.AST, str]] = []  # (kind, node, text)

    def add(self, kind: str, node: ast.AST, text: str) -> None:
        self.items.append((kind, node, text))

    def kinds(self) -> Set[str]:
        return {k for k, _, _ in self.items}


def classify_return(fn: ast.FunctionDef, ret: ast.Return, other_key: str) -> Tuple[str, str]:
    v = ret.value
    if v is None:
        return UNKNOWN, "return None"
    t = norm(v)
    if isinstance(v, ast.Dict):
        return ACCEPT, t[:40]
    if isinstance(v, ast.Call):
        nm = last_attr(v)
        if nm in ("unify_bounds_maps", "intersect_bounds_maps"):
            return ACCEPT, nm
        if nm == "CanAssignError":
            # constructed under a guard on an inductive result -> propagated
            for g, pol in guards_of(ret, fn):
                if pol and isinstance(g, ast.Call) and last_attr(g) == "isinstance" and len(g.args) == 2 and "CanAssignError" in norm(g.args[1]):
                    src = g.args[0]
                    if isinstance(src, ast.Name):
                        assigns = local_assignments(fn, src.id)
                        if assigns and all(isinstance(a, ast.Call) and isinstance(a.func, ast.Attribute) and a.func.attr in ("can_assign", "can_be_assigned", "can_assign_thrift_enum") for a in assigns):
                            return PROPAGATED, "error of a component check"
            return REJECT, t[:60]
        if nm == "maybe_specify_error":
            return PROPAGATED, "error of a component check"
        ind = _is_inductive_call(v, other_key)
        if ind:
            return INDUCTIVE, ind
        if isinstance(v.func, ast.Attribute) and v.func.attr in ("can_assign", "can_be_assigned", "check_call_preprocessed"):
            return UNKNOWN, t[:60]
        return UNKNOWN, t[:60]
    if isinstance(v, ast.Name):
        assigns = local_assignments(fn, v.id)
        # `return can_assign` inside `if isinstance(can_assign, CanAssignError)` -> propagated
        for g, pol in guards_of(ret, fn):
            if pol and isinstance(g, ast.Call) and last_attr(g) == "isinstance" and len(g.args) == 2 and norm(g.args[0]) == v.id and "CanAssignError" in norm(g.args[1]):
                return PROPAGATED, f"error held in {v.id}"
        kinds = set()
        for a in assigns:
            if isinstance(a, ast.Call) and _is_inductive_call(a, other_key):
                kinds.add(INDUCTIVE)
            elif isinstance(a, ast.Call) and isinstance(a.func, ast.Attribute) and a.func.attr in ("can_assign", "can_be_assigned"):
                nm2 = norm(a.func.value)
                kinds.add(EXTENSION if nm2.startswith("ext") else UNKNOWN)
            elif isinstance(a, ast.Dict):
                kinds.add(ACCEPT)
            else:
                kinds.add(UNKNOWN)
        if kinds == {INDUCTIVE}:
            return INDUCTIVE, f"{v.id} = component check of the same value"
        if kinds == {ACCEPT}:
            return ACCEPT, v.id
        if EXTENSION in kinds and kinds <= {EXTENSION, INDUCTIVE}:
            return EXTENSION, f"{v.id} = extension check"
        return UNKNOWN, v.id
    return UNKNOWN, t[:60]


class Analyzer:
    def __init__(self, prog: Program) -> None:
        self.prog = prog
        self.cu = _universe(prog)
        self.rk = UnarySummary(prog, prog.func("value", "replace_known_sequence_value"), self.cu, SINGLETONS_N, PSEUDO)
        self.predicates = {"is_union": prog.func("value", "is_union")}
        self.memo: Dict[Tuple[str, str, str, str], Outcome] = {}

    def method(self, cname: str, meth: str) -> Optional[Tuple[str, ast.FunctionDef]]:
        f = self.prog.find_method(cname, meth)
        if f is None:
            return None
        return f[0].name, f[1]

    def run(self, owner: str, fn: ast.FunctionDef, other_atom: str, exclude_any: str, depth: int = 0) -> Outcome:
        key = (owner, fn.name, other_atom, exclude_any)
        if key in self.memo:
            return self.memo[key]
        out = Outcome()
        self.memo[key] = out
        params = [a.arg for a in fn.args.args]
        if len(params) < 2:
            return out
        other_key = params[1]
        ctx_key = params[2] if len(params) > 2 else "ctx"
        it = Interp(
            self.prog,
            fn,
            universes={other_key: self.cu, f"{ctx_key}.should_exclude_any()": BOOL_UNIVERSE},
            class_universe=self.cu,
            singletons=SINGLETONS_N,
            summaries={"replace_known_sequence_value": self.rk.as_summary()},
            pseudo_bases=PSEUDO,
            predicates=self.predicates,
        )
        env = {other_key: frozenset({other_atom})}
        if exclude_any in (TRUE, FALSE):
            env[f"{ctx_key}.should_exclude_any()"] = frozenset({exclude_any})
        else:
            env[f"{ctx_key}.should_exclude_any()"] = frozenset({TRUE, FALSE})
        it.run(env)
        for ret, renv in it.returns:
            # the tracked value may have been re-bound (other = normaliser(other))
            cur = renv.get(other_key, self.cu.atoms)
            kind, text = classify_return(fn, ret, other_key)
            v = ret.value
            if isinstance(v, ast.Call) and isinstance(v.func, ast.Attribute) and isinstance(v.func.value, ast.Call) and last_attr(v.func.value) == "super" and depth < 6:
                # follow super().m(other, ctx) with the current abstract value of its argument
                base = self._super_of(owner)
                arg = v.args[0] if v.args else None
                atoms = renv.get(arg.id, cur) if isinstance(arg, ast.Name) else cur
                tgt = self.method(base, v.func.attr) if base else None
                if tgt is not None:
                    for a in sorted(atoms):
                        sub = self.run(tgt[0], tgt[1], a, exclude_any, depth + 1)
                        for k2, n2, t2 in sub.items:
                            out.add(k2, n2, f"super -> {tgt[0]}.{tgt[1].name}[{a}]: {t2}")
                    continue
            if isinstance(v, ast.Call) and isinstance(v.func, ast.Attribute) and isinstance(v.func.value, ast.Name) and v.func.value.id == "self" and v.func.attr.startswith("can_assign") and depth < 6:
                tgt = self.method(owner, v.func.attr)
                arg = v.args[0] if v.args else None
                if tgt is not None and isinstance(arg, ast.Name):
                    atoms = renv.get(arg.id, cur)
                    for a in sorted(atoms):
                        sub = self.run(tgt[0], tgt[1], a, exclude_any, depth + 1)
                        for k2, n2, t2 in sub.items:
                            out.add(k2, n2, f"self.{v.func.attr}[{a}]: {t2}")
                    continue
            out.add(kind, ret, f"{owner}.{fn.name}:{ret.lineno}: {text}")
        if it.fallthrough is not None:
            out.add(UNKNOWN, fn, f"{owner}.{fn.name}: falls off the end (returns None)")
        return out

    def _super_of(self, owner: str) -> Optional[str]:
        ci = self.prog.cls(owner)
        for b in ci.base_names:
            if b in self.prog.classes:
                return b
        return None


# (receiver, law) -> reason the law is not required / a reject is legitimate
LAW_EXCEPTIONS: Dict[Tuple[str, str], str] = {
    ("VoidValue", "*"): "internal: nothing is assignable to (void) by design",
    ("AnnotatedValue", "any"): "extensions (custom checks, TypeGuard/TypeIs metadata) may legitimately constrain Any; the wrapped value's own check is inductive",
    ("AnnotatedValue", "never"): "same as above for Never: the wrapped value's check is inductive, extension checks are user-defined",
}


def receivers(prog: Program) -> List[str]:
    return [c for c in prog.subclasses("Value", strict=True) if c not in RECEIVER_EXCLUDED]


def r04_abc(prog: Program, chk: Check) -> None:
    chk.rule("R04.a", "Never is accepted by every static-type receiver: abstract dispatch of can_assign with other = Never reaches no direct rejection", floor=10)
    chk.rule("R04.b", "Any is accepted by every static-type receiver when exclude-any mode is off, and record_any_used() is called on the accepting path of the base rule", floor=10)
    chk.rule("R04.c", "Any accepts every type (AnyValue.can_assign reaches no rejection for non-union, non-annotated operands)", floor=10)
    an = Analyzer(prog)
    recs = receivers(prog)
    chk.analysed["receivers"] = recs
    for c in recs:
        m = an.method(c, "can_assign")
        if m is None:
            continue
        owner, fn = m
        ci = prog.cls(c)
        for law, atom, exc, rule in (("never", "Never", "both", "R04.a"), ("any", "AnyValue", FALSE, "R04.b")):
            if (c, law) in LAW_EXCEPTIONS or (c, "*") in LAW_EXCEPTIONS:
                continue
            an.memo.clear()
            out = an.run(owner, fn, atom, exc)
            bad = [(k, t) for k, _, t in out.items if k in (REJECT, UNKNOWN)]
            chk.ob(
                rule,
                f"value::{c}.can_assign::other={atom}",
                not bad and bool(out.items),
                prog.site(ci.module, fn),
                f"{c}.can_assign({atom}) can end in {sorted(set(k for k, _ in bad))}: {[t for _, t in bad][:3]}",
                witness=[t for _, _, t in out.items][:12],
            )
    # R04.c
    anyfn = prog.cls("AnyValue").methods["can_assign"]
    for atom in sorted(an.cu.atoms - {"AnnotatedValue", "MultiValuedValue", "Never"}):
        an.memo.clear()
        out = an.run("AnyValue", anyfn, atom, "both")
        bad = [(k, t) for k, _, t in out.items if k != ACCEPT]
        chk.ob(
            "R04.c",
            f"value::AnyValue.can_assign::other={atom}",
            not bad and bool(out.items),
            prog.site("value", anyfn),
            f"AnyValue.can_assign({atom}) can end in {[t for _, t in bad][:3]}",
        )
    # record_any_used on the base accepting path
    base = prog.func("value", "Value.can_assign")
    need_locals(base, "other", "ctx")
    ok = False
    for n in walk_no_nested(base):
        if isinstance(n, ast.If) and "isinstance(other, AnyValue)" in norm(n.test) and "should_exclude_any()" in norm(n.test):
            body = [norm(s) for s in n.body]
            ok = any("record_any_used()" in b for b in body[:-1]) and isinstance(n.body[-1], ast.Return) and isinstance(n.body[-1].value, ast.Dict)
    chk.ob("R04.b", "value::Value.can_assign::records-any", ok, prog.site("value", base), "the Any arm of the base rule must call ctx.record_any_used() before accepting (overload resolution depends on it)")


def r04_d(prog: Program, chk: Check) -> None:
    chk.rule("R04.d", "exclude-any mode is monotone: should_exclude_any() is read only as a negated conjunct guarding an accepting return", floor=3)
    n = 0
    for mod in prog.modules.values():
        for c in calls_in(mod.tree, "should_exclude_any"):
            q = prog.qualname_of(mod, c)
            if q.endswith(".should_exclude_any"):
                continue
            n += 1
            p = parent(c)
            negated = isinstance(p, ast.UnaryOp) and isinstance(p.op, ast.Not)
            pp = parent(p) if negated else None
            conj = isinstance(pp, ast.BoolOp) and isinstance(pp.op, ast.And)
            iff = parent(pp) if conj else None
            ok = False
            if isinstance(iff, ast.If) and iff.test is pp:
                last = iff.body[-1]
                ok = isinstance(last, ast.Return) and isinstance(last.value, ast.Dict)
            chk.ob(
                "R04.d",
                f"{mod.name}::{q}::should_exclude_any-read",
                ok,
                prog.site(mod, c),
                "should_exclude_any() must appear as `... and not ctx.should_exclude_any()` guarding `return {}`: any other use can turn a rejection into an acceptance when the mode is switched on",
            )
    if n < 3:
        raise AnchorError("fewer than 3 reads of should_exclude_any()")


def _forall_loop(fn: ast.FunctionDef, iter_pred) -> Optional[Tuple[ast.For, bool, str]]:
    for lp in walk_no_nested(fn):
        if isinstance(lp, ast.For) and iter_pred(lp.iter) and isinstance(lp.target, ast.Name):
            x = lp.target.id
            call_ok = False
            res_name = None
            for st in lp.body:
                if isinstance(st, ast.Assign) and isinstance(st.value, ast.Call) and isinstance(st.value.func, ast.Attribute) and st.value.func.attr == "can_assign":
                    if norm(st.value.func.value) == "self" and st.value.args and norm(st.value.args[0]) == x:
                        call_ok = True
                        res_name = norm(st.targets[0])
            ret_on_error = False
            for st in lp.body:
                if isinstance(st, ast.If) and res_name and norm(st.test) == f"isinstance({res_name}, CanAssignError)":
                    ret_on_error = any(isinstance(s, ast.Return) for s in st.body)
            jumps = any(isinstance(n, (ast.Break, ast.Continue)) for n in ast.walk(lp))
            return lp, call_ok and ret_on_error and not jumps and not lp.orelse, x
    return None


def r04_ef(prog: Program, chk: Check) -> None:
    chk.rule("R04.e", "a union on the right is accepted iff every member is: the loop checks all members and returns the first member error", floor=3)
    chk.rule("R04.f", "a union on the left accepts what one member accepts: all own members are tried, rejection iff none accepted", floor=1)
    for m, q in (("value", "Value.can_assign"), ("value", "MultiValuedValue.can_assign"), ("value", "TypedValue.can_assign_thrift_enum")):
        fn = prog.func(m, q)
        need_locals(fn, "other")
        r = _forall_loop(fn, lambda it: norm(it) in ("other.vals", "flatten_values(other)"))
        ok = r is not None and r[1]
        # after the loop the function accepts
        if ok:
            lp = r[0]
            par = parent(lp)
            blk = par.orelse if lp in getattr(par, "orelse", []) else par.body  # type: ignore[union-attr]
            after = blk[blk.index(lp) + 1 :]
            rets = [s for s in after if isinstance(s, ast.Return)]
            ok = bool(rets) and isinstance(rets[-1].value, ast.Call) and last_attr(rets[-1].value) == "unify_bounds_maps"
        chk.ob("R04.e", f"{m}::{q}::forall-members", ok, prog.site(m, fn), "the union-on-the-right arm must check every member of `other`, return the member's error at once and accept after the loop")
    fn = prog.func("value", "MultiValuedValue.can_assign")
    need_locals(fn, "other")
    ok = False
    for lp in walk_no_nested(fn):
        if isinstance(lp, ast.For) and isinstance(lp.target, ast.Name) and norm(lp.iter) in ("my_vals", "self.vals"):
            x = lp.target.id
            calls = [c for c in calls_in(lp, "can_assign") if norm(c.func.value) == x and c.args and norm(c.args[0]) == "other"]  # type: ignore[attr-defined]
            no_early = not any(isinstance(n, (ast.Return, ast.Break)) for n in ast.walk(lp))
            par = parent(lp)
            blk = par.orelse if lp in getattr(par, "orelse", []) else par.body  # type: ignore[union-attr]
            after = blk[blk.index(lp) + 1 :]
            # the accumulator of accepted results: a list appended to in the non-error branch
            accs = {norm(c.func.value) for c in calls_in(lp, "append") if isinstance(c.func, ast.Attribute)}  # type: ignore[attr-defined]
            rej = [s for s in after if isinstance(s, ast.If) and norm(s.test) in {f"not {a}" for a in accs} and isinstance(s.body[-1], ast.Return) and "CanAssignError" in norm(s.body[-1])]
            acc = [s for s in after if isinstance(s, ast.Return) and isinstance(s.value, ast.Call) and last_attr(s.value) == "intersect_bounds_maps" and s.value.args and norm(s.value.args[0]) in accs]
            ok = bool(calls) and no_early and bool(rej) and bool(acc)
    chk.ob("R04.f", "value::MultiValuedValue.can_assign::exists-member", ok, prog.site("value", fn), "the non-union arm must try every own member against `other`, reject iff none accepted and accept otherwise")


def early_accept_rule(prog: Program, chk: Check, rid: str) -> None:
    chk.rule(rid, "accepting shortcuts in the union-on-the-left arm are exact: a literal is accepted early only when (value, type) is a member literal", floor=1)
    fn = prog.func("value", "MultiValuedValue.can_assign")
    loop = None
    for lp in walk_no_nested(fn):
        if isinstance(lp, ast.For) and isinstance(lp.target, ast.Name) and any(
            isinstance(c.func, ast.Attribute) and norm(c.func.value) == lp.target.id and c.args and norm(c.args[0]) == "other" for c in calls_in(lp, "can_assign")
        ):
            loop = lp
    if loop is None:
        raise AnchorError("MultiValuedValue.can_assign: member loop not found")
    blk = parent(loop)
    arm = blk.orelse if loop in getattr(blk, "orelse", []) else blk.body  # type: ignore[union-attr]
    early = [r for st in arm[: arm.index(loop)] for r in ast.walk(st) if isinstance(r, ast.Return) and isinstance(r.value, ast.Dict)]
    n = 0
    for r in early:
        n += 1
        ok = False
        for g, pol in guards_of(r, fn):
            if not pol or not isinstance(g, ast.Name):
                continue
            defs = local_assignments(fn, g.id)
            ok = bool(defs) and all(
                isinstance(d, ast.Compare)
                and len(d.ops) == 1
                and isinstance(d.ops[0], ast.In)
                and isinstance(d.left, ast.Tuple)
                and [norm(e) for e in d.left.elts] == ["other.val", "type(other.val)"]
                for d in defs
            )
        chk.ob(
            rid,
            f"value::MultiValuedValue.can_assign::early-accept#{n}",
            ok,
            prog.site("value", r),
            "an accepting shortcut before the member loop is not justified by an exact `(other.val, type(other.val)) in known literals` test: "
            "objects that merely share a class with a member are accepted without the member's own check",
        )
    if n == 0:
        chk.ob(rid, "value::MultiValuedValue.can_assign::early-accept", True, prog.site("value", fn), "no accepting shortcut before the member loop", nontrivial=False)


def r04_ghi(prog: Program, chk: Check) -> None:
    from ..cfg import CFG

    early_accept_rule(prog, chk, "R04.g")
    chk.rule("R04.h", "in SequenceValue.can_assign every acceptance is dominated by the length comparison", floor=2)
    sf = prog.func("value", "SequenceValue.can_assign")
    g = CFG(sf)
    length_if = None
    for n2 in walk_no_nested(sf):
        if isinstance(n2, ast.If) and isinstance(n2.test, ast.Compare) and isinstance(n2.test.ops[0], ast.NotEq) and "len" in norm(n2.test.left) + "".join(norm(a) for a in local_assignments(sf, norm(n2.test.left)) if isinstance(n2.test.left, ast.Name)):
            if isinstance(n2.body[-1], ast.Return) and "CanAssignError" in norm(n2.body[-1]):
                length_if = n2
    if length_if is None:
        raise AnchorError("SequenceValue.can_assign: length comparison not found")
    seq_arm = None
    for n2 in sf.body:
        if isinstance(n2, ast.If) and "SequenceValue" in norm(n2.test):
            seq_arm = n2
    if seq_arm is None:
        raise AnchorError("SequenceValue.can_assign: SequenceValue arm not found")
    k = 0
    for r in [x for st in seq_arm.body for x in ast.walk(st) if isinstance(x, ast.Return)]:
        v = r.value
        if isinstance(v, ast.Dict) or (isinstance(v, ast.Call) and last_attr(v) == "unify_bounds_maps"):
            k += 1
            chk.ob(
                "R04.h",
                f"value::SequenceValue.can_assign::accept#{k}-after-length-check",
                g.dominates(length_if, r),
                prog.site("value", r),
                f"`{norm(r)[:40]}` can be reached without passing the length comparison: a sequence of a different length is accepted",
            )

    chk.rule("R04.i", "type[X] accepts a metaclass-typed value only if X is an instance of that metaclass (direction of the metatype test)", floor=1)
    mf = prog.func("type_object", "TypeObject.is_metatype_of")
    other_name = [a.arg for a in mf.args.args][1]
    ok = False
    for c in calls_in(mf):
        if last_attr(c) in ("safe_isinstance", "isinstance") and len(c.args) == 2:
            a0, a1 = norm(c.args[0]), norm(c.args[1])
            ok = a0.startswith(other_name + ".") and a1.startswith("self.")
    chk.ob(
        "R04.i",
        "type_object::TypeObject.is_metatype_of::direction",
        ok,
        prog.site("type_object", mf),
        "the metatype test must be isinstance(<other's class object>, <self's type>); any other direction accepts metaclasses the class is not an instance of",
    )


# ------------------------------------------------------------------- R04.j
def r04_j(prog: Program, chk: Check) -> None:
    from . import assign_model as amod

    chk.rule(
        "R04.j",
        "type-to-type assignability as a finite model (same interpretation as C03 R03.e) on every ordered pair of 36 static types (Any, Never, 12 literals, 8 classes, 6 unions, two large "
        "unions): acceptance implies inclusion of the member sets; every type accepts itself, Never and - outside exclude-any mode - Any, and Any accepts everything; a union on the "
        "right is accepted iff every member is, a union on the left accepts what one of its members accepts; exclude-any mode only removes acceptances",
        floor=6,
    )
    am = amod.AssignModel(prog)
    lits = [am.known(o) for o in amod.UNIVERSE]
    typs = [am.typed(t) for t in amod.TYPES]
    unions = [am.union([am.typed(a), am.typed(b)]) for a, b in ((int, str), (bool, str), (float, type(None)), (complex, amod.Color))] + [am.union([am.known(1), am.known("a")]), am.union([am.known(True), am.typed(str)])]
    big = am.with_known_subvals(am.union([am.known(i) for i in range(9)] + [am.known("a"), am.typed(str)]))
    big2 = am.with_known_subvals(am.union([am.known(i) for i in range(12)]))
    vals = [am.any(), am.never] + lits + typs + unions + [big, big2]
    classes: Dict[str, List[dict]] = {k: [] for k in ("acceptance-implies-inclusion", "reflexive", "Never-accepted-by-all", "Any-accepted-and-accepting", "union-on-the-right-is-forall", "union-on-the-left-is-exists", "exclude-any-only-removes", "no-crash")}
    counts = {k: 0 for k in classes}
    n = 0
    table: Dict[Tuple[int, int], bool] = {}

    def has_any(v) -> bool:
        return v._kind == "AnyValue" or any(x._kind == "AnyValue" for x in (v._attrs.get("vals") or ()))

    for li, L in enumerate(vals):
        for ri, R in enumerate(vals):
            n += 1
            r = am.can_assign(L, R)
            d = {"left": amod.show(L), "right": amod.show(R)}
            counts["no-crash"] += 1
            if isinstance(r, tuple):
                classes["no-crash"].append({**d, "error": r[1]})
                continue
            table[(li, ri)] = r
            if not has_any(L) and not has_any(R):
                counts["acceptance-implies-inclusion"] += 1
                extra = amod.members(R) - amod.members(L)
                if r and extra:
                    classes["acceptance-implies-inclusion"].append({**d, "right_only_objects": [repr(amod.UNIVERSE[i]) for i in sorted(extra)]})
            if li == ri:
                counts["reflexive"] += 1
                if not r:
                    classes["reflexive"].append(d)
            if R is am.never:
                counts["Never-accepted-by-all"] += 1
                if not r:
                    classes["Never-accepted-by-all"].append(d)
            if L._kind == "AnyValue" or R._kind == "AnyValue":
                counts["Any-accepted-and-accepting"] += 1
                if not r:
                    classes["Any-accepted-and-accepting"].append(d)
            r2 = am.can_assign(L, R, exclude_any=True)
            counts["exclude-any-only-removes"] += 1
            if r2 is True and r is False:
                classes["exclude-any-only-removes"].append(d)
    for (li, ri), r in table.items():
        L, R = vals[li], vals[ri]
        if R._kind == "MultiValuedValue" and R._attrs["vals"] and not has_any(L):
            counts["union-on-the-right-is-forall"] += 1
            parts = [am.can_assign(L, m) for m in R._attrs["vals"]]
            if all(isinstance(p_, bool) for p_ in parts) and r != all(parts):
                classes["union-on-the-right-is-forall"].append({"left": amod.show(L), "right": amod.show(R), "whole": r, "members": parts})
        if L._kind == "MultiValuedValue" and L._attrs["vals"] and R._kind != "MultiValuedValue" and not has_any(R):
            counts["union-on-the-left-is-exists"] += 1
            parts = [am.can_assign(m, R) for m in L._attrs["vals"]]
            if all(isinstance(p_, bool) for p_ in parts) and r != any(parts):
                classes["union-on-the-left-is-exists"].append({"left": amod.show(L), "right": amod.show(R), "whole": r, "members": parts})
    chk.model_evaluations += n
    chk.analysed["assign_model_types"] = {"pairs": n}
    site = prog.site("value", prog.find_method("TypedValue", "can_assign")[1])  # type: ignore[index]
    for k, bad in classes.items():
        chk.ob("R04.j", f"value::assignability-model::{k}", not bad, site, f"{counts[k]} cases, {len(bad)} failing" + (f"; first: {bad[0]}" if bad else ""), witness=bad[:4])


# ------------------------------------------------------------------- R04.k
def _type_pair_chunk(args):
    part, nparts, stride = args
    from ..model import AnchorError as _AE
    from ..model import Program as _P
    from . import container_model as cmod

    m = cmod.ContainerModel(_P())
    classes = {}
    unsupported = []
    n = lenient = 0

    def note(key, bad, d):
        c = classes.setdefault(key, {"n": 0, "bad": []})
        c["n"] += 1
        if bad:
            c["bad"].append(d)

    for family, specs, objects in (("containers", list(cmod.type_specs()), cmod.OBJECTS), ("TypedDicts", list(cmod.typeddict_specs()), cmod.TD_OBJECTS)):
      mem = [frozenset(j for j, o in enumerate(objects) if cmod.member(o, s)) for s in specs]
      for i, a in enumerate(specs):
          if i % nparts != part:
              continue
          A = m.value_of(a)
          for j, b in enumerate(specs):
              if stride > 1 and (i + j) % stride and i != j:
                  continue
              n += 1
              d = {"expected": cmod.spec_str(a), "actual": cmod.spec_str(b)}
              try:
                  r = m.can_assign(A, m.value_of(b))
              except _AE as e:
                  unsupported.append({**d, "why": str(e)[:300]})
                  continue
              if isinstance(r, tuple):
                  note(f"{family}::no-crash", True, {**d, "error": r[1]})
                  continue
              note(f"{family}::no-crash", False, d)
              if i == j:
                  note(f"{family}::every type accepts itself", not r, d)
              if r:
                  extra = mem[j] - mem[i]
                  # the leniency the property excludes: a fixed-length tuple accepts tuple[E, ...] when E is
                  # acceptable to the union of its members (pyanalyze/test_value.py::test_sequence_value asserts it)
                  if extra and a[0] in ("tuple", "tupv") and b[0] == "tuple*":
                      lenient += 1
                      continue
                  note(f"{family}::acceptance implies inclusion of the members", bool(extra), {**d, "objects_only_in_actual": [repr(objects[k]) for k in sorted(extra)][:3]})
    return n, lenient, classes, unsupported


def r04_k(prog: Program, chk: Check) -> None:
    import multiprocessing as mp
    import os as _os

    chk.rule(
        "R04.k",
        "type-to-type assignability of container types as a finite model (the container model of R03.f): for every pair of the 123 types (list / set / frozenset / Sequence / "
        "Iterable / tuple[X, ...] / fixed tuples / tuples with one unpacked member / dict / Mapping over 7 element types, nested containers, unions) and of 180 TypedDicts (21 dict objects), whenever the expected type accepts the actual one, every object "
        "of the universe that belongs to the actual type belongs to the expected one; every type accepts itself; no pair raises. The one documented leniency (a "
        "tuple type with single members accepts tuple[E, ...]) is counted, not reported",
        floor=3,
    )
    selftest = bool(_os.environ.get("VERIF_SELFTEST"))
    procs = 2 if selftest else min(16, _os.cpu_count() or 1)
    stride = 4 if selftest else 1
    with mp.get_context("fork").Pool(procs) as pl:
        results = pl.map(_type_pair_chunk, [(i, procs * 2, stride) for i in range(procs * 2)])
    total = lenient = 0
    merged = {}
    unsupported = []
    for n, ln, classes, uns in results:
        total += n
        lenient += ln
        unsupported += uns
        for k, c in classes.items():
            mm = merged.setdefault(k, {"n": 0, "bad": []})
            mm["n"] += c["n"]
            mm["bad"] += c["bad"]
    chk.model_evaluations += total
    chk.analysed["container_model_pairs"] = {"pairs": total, "fixed_tuple_accepts_variadic_tuple (documented leniency)": lenient, "not_modelled": len(unsupported)}
    site = prog.site("value", prog.find_method("SequenceValue", "can_assign")[1])  # type: ignore[index]
    for k, c in sorted(merged.items()):
        bad = sorted(c["bad"], key=lambda d: (len(d["expected"]) + len(d["actual"]), repr(d)))
        chk.ob("R04.k", f"value::container-model::{k}", not bad, site, f"{c['n']} pairs, {len(bad)} failing" + (f"; smallest: {bad[0]}" if bad else ""), witness=bad[:5])
    if unsupported:
        raise AnchorError(f"{len(unsupported)} type pairs cannot be modelled; first: {unsupported[0]}")


# ------------------------------------------------------------------- R04.l
def r04_l(prog: Program, chk: Check) -> None:
    chk.rule(
        "R04.l",
        "accept-by-identity shortcuts: where can_assign / can_be_assigned / can_overlap of a value class accepts because a field that is excluded from equality (`compare=False`) "
        "is the same object on both sides, the same test (directly or through a helper of the class) also compares every field of the class that holds values; otherwise two values "
        "that share the object and differ in those fields are interchangeable (two specialisations of one generic alias)",
        floor=1,
    )
    n = 0
    for cname, ci in sorted(prog.classes.items()):
        fields = [(st.target.id, ast.unparse(st.annotation), st.value) for st in ci.node.body if isinstance(st, ast.AnnAssign) and isinstance(st.target, ast.Name)]
        excluded = [f for f, _, v in fields if isinstance(v, ast.Call) and norm(v.func).endswith("field") and any(k.arg == "compare" and isinstance(k.value, ast.Constant) and k.value.value is False for k in v.keywords)]
        value_fields = [f for f, ann, _ in fields if "Value" in ann and f not in excluded]
        if not excluded or not value_fields:
            continue
        for mname in ("can_assign", "can_be_assigned", "can_overlap"):
            fn = ci.methods.get(mname)
            if fn is None or len(fn.args.args) < 2:
                continue
            other = fn.args.args[1].arg
            for node in walk_no_nested(fn):
                if not isinstance(node, ast.If):
                    continue
                accepts = any(isinstance(b, ast.Return) and ((isinstance(b.value, ast.Dict) and not b.value.keys) or (isinstance(b.value, ast.Constant) and b.value.value is None)) for b in node.body)
                if not accepts:
                    continue
                text = norm(node.test)
                # expand helpers of the class called on (self, other)
                for c in ast.walk(node.test):
                    if isinstance(c, ast.Call) and isinstance(c.func, ast.Attribute) and norm(c.func.value) == "self" and c.func.attr in ci.methods and [norm(a) for a in c.args] == [other]:
                        h = ci.methods[c.func.attr]
                        hp = h.args.args[1].arg if len(h.args.args) > 1 else other
                        text += " " + " ".join(norm(r.value).replace(f"{hp}.", f"{other}.") for r in ast.walk(h) if isinstance(r, ast.Return) and r.value is not None)
                for f in excluded:
                    if f"self.{f} is {other}.{f}" not in text and f"{other}.{f} is self.{f}" not in text:
                        continue
                    n += 1
                    missing = [g for g in value_fields if not (f"self.{g}" in text and f"{other}.{g}" in text)]
                    chk.ob(
                        "R04.l",
                        f"{ci.module}::{cname}.{mname}::identity-shortcut::{f}",
                        not missing,
                        prog.site(ci.module, node),
                        f"accepts when `self.{f} is {other}.{f}` without comparing {missing}: values that share the {f} object and differ there are treated as the same type",
                    )
    chk.analysed["identity_shortcuts"] = n


def run(prog: Program, chk: Check) -> None:
    guard(chk, r04_ghi, prog, chk)
    guard(chk, r04_abc, prog, chk)
    guard(chk, r04_d, prog, chk)
    guard(chk, r04_ef, prog, chk)
    guard(chk, r04_j, prog, chk)
    guard(chk, r04_k, prog, chk)
    guard(chk, r04_l, prog, chk)
    guard(chk, r04_m, prog, chk)


# ------------------------------------------------------------------- R04.m
def _sample_protocols():
    """Protocol classes built by CPython's own typing machinery (the inputs of the model)."""
    import collections.abc as CA
    import typing

    import typing_extensions as te

    T = typing.TypeVar("T")
    out = []
    for P in (typing.Protocol, te.Protocol):
        class HasFoo(P):
            def foo(self) -> int: ...

        class HasAttr(P):
            x: int

        class Both(HasFoo, P):
            y: str

            def bar(self) -> None: ...

        class SizedFoo(CA.Sized, P):
            def foo(self) -> int: ...

        class IterFoo(CA.Iterable, P):  # type: ignore[type-arg]
            def foo(self) -> int: ...

        class HashableNamed(CA.Hashable, P):
            name: str

        class Gen(P[T]):  # type: ignore[valid-type,misc]
            def get(self) -> T: ...  # type: ignore[valid-type]

        class GenChild(Gen[int], P):  # type: ignore[valid-type,misc]
            def put(self, x: int) -> None: ...

        class Slotted(P):
            __slots__ = ()

            def foo(self) -> int: ...

        out += [HasFoo, HasAttr, Both, SizedFoo, IterFoo, HashableNamed, Gen, GenChild, Slotted]
    return out


def r04_m(prog: Program, chk: Check) -> None:
    import sys as _sys
    import typing

    import typing_extensions as te

    from ..minterp import AssertionFailed, Interp, ModelError, PyRaise, Unsupported
    from .annot_model import _is_typing_name

    chk.rule(
        "R04.m",
        "the members of a runtime protocol as a finite model: checker._extract_protocol_members is interpreted from its AST on every class of the MRO of 18 protocol classes built "
        "by CPython's typing / typing_extensions (methods, annotated attributes, a protocol extending another, protocols extending the collections.abc classes Sized / Iterable / "
        "Hashable, generic protocols and their specialised children, __slots__); the union over the MRO - what TypeObject.protocol_members is built from - contains every member "
        "CPython itself requires of an implementation (`__protocol_attrs__`, the set isinstance() checks for a runtime-checkable protocol); a member that is left out makes the "
        "protocol accept classes whose objects are not members",
        floor=2,
    )
    fn = prog.func("checker", "_extract_protocol_members")
    excluded = None
    for st in prog.module("checker").tree.body:
        tgt = st.targets[0] if isinstance(st, ast.Assign) else getattr(st, "target", None)
        if isinstance(tgt, ast.Name) and tgt.id == "EXCLUDED_PROTOCOL_MEMBERS" and isinstance(getattr(st, "value", None), ast.Set):
            excluded = {e.value for e in st.value.elts if isinstance(e, ast.Constant)}  # type: ignore[union-attr]
    if excluded is None:
        raise AnchorError("EXCLUDED_PROTOCOL_MEMBERS is not a set display of the checker module")
    funcs = {
        "is_typing_name": lambda a: _is_typing_name(a[0], a[1]),
        "safe_getattr": lambda a: getattr(a[0], a[1], a[2]) if len(a) > 2 else getattr(a[0], a[1]),
        "safe_hasattr": lambda a: hasattr(a[0], a[1]),
        "hasattr": lambda a: hasattr(a[0], a[1]),
    }
    missing, crashes = [], []
    extra_seen: Set[str] = set()
    n = 0
    protos = _sample_protocols()
    for cls in protos:
        want = set(getattr(cls, "__protocol_attrs__", None) or te.get_protocol_members(cls))
        got: Set[str] = set()
        for base in cls.__mro__:
            it = Interp({}, {}, (), funcs, None, {}, {}, {"EXCLUDED_PROTOCOL_MEMBERS": set(excluded), "sys": _sys, "__native_getattr__": True, "object": object})
            try:
                r = it.call_def(fn, [base], fn)
            except Unsupported as u:
                raise AnchorError(f"_extract_protocol_members cannot be modelled: {u}")
            except (AssertionFailed, PyRaise, ModelError) as e:
                crashes.append({"protocol": cls.__qualname__.split(".")[-1], "class of the MRO": getattr(base, "__name__", repr(base)), "error": str(e)})
                continue
            n += 1
            got |= set(r)
        d = {"protocol": f"{cls.__qualname__.split('.')[-1]}({', '.join(b.__name__ for b in cls.__bases__)})", "members CPython requires": sorted(want)}
        if want - got:
            missing.append({**d, "left out": sorted(want - got)})
        extra_seen |= got - want
    chk.model_evaluations += n
    chk.analysed["protocol_member_model"] = {"protocols": len(protos), "classes": n, "members beyond CPython's (stricter, not unsound)": sorted(extra_seen)}
    site = prog.site("checker", fn)
    missing.sort(key=lambda d: len(repr(d)))
    chk.ob("R04.m", "checker::_extract_protocol_members::every member CPython requires is a protocol member", not missing, site, f"{len(protos)} protocols, {len(missing)} with a required member left out" + (f"; smallest: {missing[0]}" if missing else ""), witness=missing[:5])
    chk.ob("R04.m", "checker::_extract_protocol_members::no-crash", not crashes, site, f"{len(crashes)} crashes" + (f"; first: {crashes[0]}" if crashes else ""), witness=crashes[:3])
