"""C20 - type evaluation functions: argument-kind tables and evaluator control."""

from __future__ import annotations

import ast
from typing import Dict, List, Optional, Sequence, Tuple

from ..model import AnchorError, Program, dotted, kw, last_attr, norm, parent, walk_no_nested
from ..report import Check, guard
from .binder import Binder, core
from .common import calls_in, guards_of, local_assignments, need_locals, returns_of

POSITIONS = ["int", "str", "DEFAULT", "ARGS", "KWARGS", "UNKNOWN"]
SPEC = {
    # docs/type_evaluation.md: is_provided <=> POSITIONAL or KEYWORD; is_positional <=> POSITIONAL; is_keyword <=> KEYWORD
    "is_provided": {"int", "str", "ARGS", "KWARGS"},
    "is_positional": {"int", "ARGS"},
    "is_keyword": {"str", "KWARGS"},
}


def _eval_kind(expr: ast.AST, var: str, elem: str) -> Optional[bool]:
    if isinstance(expr, ast.BoolOp):
        vals = [_eval_kind(v, var, elem) for v in expr.values]
        if any(v is None for v in vals):
            return None
        return all(vals) if isinstance(expr.op, ast.And) else any(vals)
    if isinstance(expr, ast.UnaryOp) and isinstance(expr.op, ast.Not):
        v = _eval_kind(expr.operand, var, elem)
        return None if v is None else not v
    if isinstance(expr, ast.Compare) and len(expr.ops) == 1 and isinstance(expr.left, ast.Name) and expr.left.id == var:
        op, r = expr.ops[0], expr.comparators[0]
        if isinstance(r, ast.Name) and r.id in ("DEFAULT", "ARGS", "KWARGS", "UNKNOWN"):
            if isinstance(op, (ast.Is, ast.Eq)):
                return elem == r.id
            if isinstance(op, (ast.IsNot, ast.NotEq)):
                return elem != r.id
        if isinstance(op, (ast.In, ast.NotIn)) and isinstance(r, (ast.Tuple, ast.List, ast.Set)):
            names = {x.id for x in r.elts if isinstance(x, ast.Name)}
            return (elem in names) == isinstance(op, ast.In)
    if isinstance(expr, ast.Call) and last_attr(expr) == "isinstance" and len(expr.args) == 2 and isinstance(expr.args[0], ast.Name) and expr.args[0].id == var:
        t = expr.args[1]
        names = [norm(x) for x in (t.elts if isinstance(t, ast.Tuple) else [t])]
        if all(n in ("int", "str") for n in names):
            return elem in names
    return None


def r20_1(prog: Program, chk: Check) -> None:
    chk.rule("R20.1", "kind predicates: is_provided / is_positional / is_keyword evaluated over the six-element Position domain equal the specification table", floor=12)
    fn = prog.func("type_evaluation", "ConditionEvaluator.visit_Call")
    found: Dict[str, ast.AST] = {}
    for n in walk_no_nested(fn):
        if isinstance(n, ast.If) and isinstance(n.test, ast.Compare) and isinstance(n.test.comparators[0], ast.Constant) and n.test.comparators[0].value in SPEC:
            fname = n.test.comparators[0].value
            for s in n.body:
                if isinstance(s, ast.Assign) and isinstance(s.targets[0], ast.Name) and s.targets[0].id == "match":
                    found[fname] = s.value
    for fname, want in SPEC.items():
        if fname not in found:
            raise AnchorError(f"visit_Call: no `match = ...` for {fname}")
        expr = found[fname]
        var = next((x.id for x in ast.walk(expr) if isinstance(x, ast.Name) and x.id not in ("DEFAULT", "ARGS", "KWARGS", "UNKNOWN", "int", "str", "isinstance")), "position")
        for elem in POSITIONS:
            got = _eval_kind(expr, var, elem)
            chk.ob(
                "R20.1",
                f"type_evaluation::ConditionEvaluator.visit_Call::{fname}({elem})",
                got is not None and got == (elem in want),
                prog.site("type_evaluation", expr),
                f"{fname}() for position kind {elem}: `{norm(expr)}` gives {got}, the specification says {elem in want}",
            )
    # a match gives a left (true) varmap, a non-match a right varmap
    t = norm(fn)
    ok = False
    for n in walk_no_nested(fn):
        if isinstance(n, ast.If) and norm(n.test) == "match":
            tb = [norm(s) for s in n.body]
            fb = [norm(s) for s in n.orelse]
            ok = any("left_varmap={}" in s for s in tb) and not any("right_varmap" in s for s in tb) and any("right_varmap={}" in s for s in fb) and not any("left_varmap" in s for s in fb)
    chk.ob("R20.1", "type_evaluation::ConditionEvaluator.visit_Call::match-polarity", ok, prog.site("type_evaluation", fn), "`if match:` must return a left (true) varmap and the else-branch a right (false) varmap")


FULL = {"ELLIPSIS": False, "POK_NAME": False, "POK_IDX": False, "DEF_PROVIDED": True}
ATOMS = ["HAS_POS", "HAS_KW", "HAS_DEFAULT", "STAR_ARGS", "STAR_KWARGS"]


def marker_spec(kind: str, v: Dict[str, bool]) -> str:
    """docs/type_evaluation.md, section on argument kinds."""
    d = v["HAS_DEFAULT"]
    if kind == "POSITIONAL_ONLY":
        if v["HAS_POS"]:
            return "POS_INDEX"
        if v["STAR_ARGS"]:
            return "UNKNOWN" if d else "ARGS"
        return "DEFAULT" if d else "ERROR"
    if kind == "KEYWORD_ONLY":
        if v["HAS_KW"]:
            return "KW_NAME"
        if v["STAR_KWARGS"]:
            return "UNKNOWN" if d else "KWARGS"
        return "DEFAULT" if d else "ERROR"
    if kind == "POSITIONAL_OR_KEYWORD":
        if v["HAS_POS"]:
            return "ERROR" if v["HAS_KW"] else "POS_INDEX"
        if v["HAS_KW"]:
            # an explicit keyword is kind KEYWORD whether or not *args is passed too. (Until the
            # binder fix recorded in DESIGN.md section 5 the tree reported an error here and this
            # table had copied it; the specification never asked for that.)
            return "KW_NAME"
        # *args cannot reach a parameter that follows one passed by keyword
        if v["STAR_ARGS"] and not v.get("STAR_EXHAUSTED", False):
            if v["STAR_KWARGS"]:
                return "UNKNOWN"
            return "UNKNOWN" if d else "ARGS"
        if v["HAS_KW"]:
            return "KW_NAME"
        if v["STAR_KWARGS"]:
            return "UNKNOWN" if d else "KWARGS"
        return "DEFAULT" if d else "ERROR"
    raise KeyError(kind)


def r20_2(prog: Program, chk: Check) -> None:
    chk.rule("R20.2", "binder markers: the position stored for each parameter follows the specification's kind table for every combination of explicit / starred / default sources", floor=60)
    b = Binder(prog)
    site = prog.site("signature", b.fn)
    for kind in ("POSITIONAL_ONLY", "POSITIONAL_OR_KEYWORD", "KEYWORD_ONLY"):
        atoms = list(ATOMS)
        fixed = dict(FULL)
        if kind == "POSITIONAL_OR_KEYWORD" and b.exhausted_flag:
            atoms.append("STAR_EXHAUSTED")
        else:
            fixed["STAR_EXHAUSTED"] = False
        tab, ev = b.table(kind, atoms, fixed)
        for val, seqs in tab.items():
            v = dict(val)
            want = marker_spec(kind, v)
            got = set()
            for s in seqs:
                c = core(s)
                if "ERROR" in c:
                    got.add("ERROR")
                else:
                    binds = [a[5:] for a in c if a.startswith("BIND:")]
                    got.add(binds[-1] if binds else "NONE")
            name = ",".join(f"{k}={int(x)}" for k, x in val)
            chk.ob(
                "R20.2",
                f"signature::Signature.bind_arguments::marker::{kind}::{name}",
                got == {want},
                site,
                f"{kind} with {name}: binder stores {sorted(got)}, the specification requires {want}",
            )
    for kind, atom, star, mark in (("VAR_POSITIONAL", "EXTRA_POS", "STAR_ARGS", "ARGS"), ("VAR_KEYWORD", "EXTRA_KW", "STAR_KWARGS", "KWARGS")):
        tab, _ = b.table(kind, [atom, star], dict(FULL))
        for val, seqs in tab.items():
            v = dict(val)
            want = mark if (v[atom] or v[star]) else "DEFAULT"
            got = {[a[5:] for a in core(s) if a.startswith("BIND:")][-1] for s in seqs}
            name = ",".join(f"{k}={int(x)}" for k, x in val)
            chk.ob(
                "R20.2",
                f"signature::Signature.bind_arguments::marker::{kind}::{name}",
                got == {want},
                site,
                f"{kind} with {name}: binder stores {sorted(got)}, the specification requires {want} (DEFAULT only when provably empty)",
            )
    # positions reach the evaluator unchanged: EvalContext(positions=...) is built from the bound args' first components
    cc = prog.func("signature", "Signature.check_call_with_bound_args")
    ok = False
    for c in calls_in(cc, "EvalContext"):
        args = [norm(a) for a in c.args] + [norm(k.value) for k in c.keywords]
        ok = any("position" in a for a in args)
    chk.ob("R20.2", "signature::Signature.check_call_with_bound_args::positions-forwarded", ok, prog.site("signature", cc), "the evaluator context must receive the positions computed by the binder")


NEGATION = {"Is": "IsNot", "IsNot": "Is", "Eq": "NotEq", "NotEq": "Eq", "Gt": "LtE", "LtE": "Gt", "Lt": "GtE", "GtE": "Lt", "In": "NotIn", "NotIn": "In"}
IMPL = {"Is": "operator.is_", "IsNot": "operator.is_not", "Eq": "operator.eq", "NotEq": "operator.ne", "Gt": "operator.gt", "LtE": "operator.le", "Lt": "operator.lt", "GtE": "operator.ge", "In": "lambda a, b: a in b", "NotIn": "lambda a, b: a not in b"}
TEXT = {"Is": "is", "IsNot": "is not", "Eq": "==", "NotEq": "!=", "Gt": ">", "LtE": "<=", "Lt": "<", "GtE": ">=", "In": "in", "NotIn": "not in"}


def r20_3(prog: Program, chk: Check) -> None:
    chk.rule("R20.3", "comparison table _OP_TO_DATA: negation is the logical complement (an involution), impl is the operator of the AST class", floor=16)
    expr = prog.module_assign("type_evaluation", "_OP_TO_DATA")
    if not isinstance(expr, ast.Dict):
        raise AnchorError("_OP_TO_DATA is not a dict literal")
    rows: Dict[str, Tuple[str, str, str]] = {}
    for k, v in zip(expr.keys, expr.values):
        key = dotted(k).split(".")[-1] if dotted(k) else (k.value if isinstance(k, ast.Constant) else norm(k))
        if not (isinstance(v, ast.Call) and len(v.args) == 3):
            raise AnchorError(f"_OP_TO_DATA[{key}] is not _Comparator(text, negation, impl)")
        text = v.args[0].value if isinstance(v.args[0], ast.Constant) else norm(v.args[0])
        neg = dotted(v.args[1]).split(".")[-1] if dotted(v.args[1]) else (v.args[1].value if isinstance(v.args[1], ast.Constant) else norm(v.args[1]))
        rows[str(key)] = (str(text), str(neg), norm(v.args[2]))
    site = "pyanalyze/type_evaluation.py"
    for op, neg in NEGATION.items():
        row = rows.get(op)
        chk.ob("R20.3", f"type_evaluation::_OP_TO_DATA::{op}::negation", row is not None and row[1] == neg, site, f"negation of ast.{op} is {row[1] if row else None}, the complement is ast.{neg}")
        chk.ob("R20.3", f"type_evaluation::_OP_TO_DATA::{op}::impl", row is not None and row[2] == IMPL[op], site, f"impl of ast.{op} is {row[2] if row else None}, expected {IMPL[op]}")
    for a, b_ in (("is of type", "is not of type"), ("is not of type", "is of type")):
        row = rows.get(a)
        chk.ob("R20.3", f"type_evaluation::_OP_TO_DATA::{a}", row is not None and row[1] == b_, site, f"`{a}` must negate to `{b_}`")


def _one_sided_return(st: ast.stmt, side: str, other: str) -> bool:
    """`return ConditionReturn(<side>=<something built from result.<side>>, ...)` without a `<other>=` argument
    (the value may also fold in what earlier operands held back: R20.7 decides what it has to be)."""
    if not (isinstance(st, ast.Return) and isinstance(st.value, ast.Call)):
        return False
    kws = {k.arg: k.value for k in st.value.keywords}
    return side in kws and other not in kws and f"result.{side}" in norm(kws[side])


def r20_4(prog: Program, chk: Check) -> None:
    chk.rule("R20.4", "evaluator control: branch execution follows the varmaps, blocks stop at the first definite return, show_error records the active conditions, Any matches only Any by default", floor=9)
    vi = prog.func("type_evaluation", "EvaluateVisitor.visit_If")
    need_locals(vi, "condition", "left_result", "right_result")
    site = prog.site("type_evaluation", vi)
    left_if = right_if = None
    for n in vi.body:
        if isinstance(n, ast.If) and norm(n.test) == "condition.left_varmap is not None" and any("visit_block(node.body)" in norm(s) for s in n.body):
            left_if = n
        if isinstance(n, ast.If) and norm(n.test) == "condition.right_varmap is not None" and any("visit_block(node.orelse)" in norm(s) for s in n.body):
            right_if = n
    ok = left_if is not None and all("visit_block" not in norm(s) for s in left_if.orelse) and "narrow_variables(condition.left_varmap)" in norm(left_if) and "add_active_condition(condition.condition)" in norm(left_if)
    chk.ob("R20.4", "type_evaluation::EvaluateVisitor.visit_If::body-iff-left", ok, site, "the body must be evaluated exactly when left_varmap is not None, under narrow_variables(left_varmap) and add_active_condition(condition)")
    ok = right_if is not None and all("visit_block" not in norm(s) for s in right_if.orelse) and "narrow_variables(condition.right_varmap)" in norm(right_if)
    chk.ob("R20.4", "type_evaluation::EvaluateVisitor.visit_If::orelse-iff-right", ok, site, "the else part must be evaluated exactly when right_varmap is not None, under narrow_variables(right_varmap)")
    # combination
    comb = [r for r in returns_of(vi) if r.value is not None and "CombinedReturn.make(left_result, right_result)" in norm(r.value)]
    ok = False
    for r in comb:
        gs = {(norm(g), pol) for g, pol in guards_of(r, vi)}
        ok = ("condition.left_varmap is not None", True) in gs and ("condition.right_varmap is not None", True) in gs
    singles = {norm(r.value): {(norm(g), pol) for g, pol in guards_of(r, vi)} for r in returns_of(vi) if r.value is not None and norm(r.value) in ("left_result", "right_result")}
    ok2 = ("condition.right_varmap is not None", False) in singles.get("left_result", set()) and ("condition.left_varmap is not None", False) in singles.get("right_result", set())
    chk.ob("R20.4", "type_evaluation::EvaluateVisitor.visit_If::combination", ok and ok2, site, "both results are combined when both branches ran; otherwise the result of the branch that ran is returned")
    vb = prog.func("type_evaluation", "EvaluateVisitor.visit_block")
    need_locals(vb, "result", "possible_returns")
    ok = False
    for n in walk_no_nested(vb):
        if isinstance(n, ast.If) and norm(n.test) == "isinstance(result, Value)" and isinstance(n.body[-1], ast.Return):
            ok = True
    tail = vb.body[-1]
    ok = ok and isinstance(tail, ast.Return) and norm(tail.value).endswith("None)")
    chk.ob("R20.4", "type_evaluation::EvaluateVisitor.visit_block::first-definite-return", ok, prog.site("type_evaluation", vb), "a block must stop at the first statement that definitely returns and otherwise end with the fall-through marker None")
    se = prog.func("type_evaluation", "EvaluateVisitor.visit_show_error")
    ok = any("UserRaisedError(message, list(self.active_conditions), argument)" in norm(c) for c in calls_in(se, "UserRaisedError"))
    chk.ob("R20.4", "type_evaluation::EvaluateVisitor.visit_show_error::records-conditions", ok, prog.site("type_evaluation", se), "show_error must record a copy of the active conditions")
    vc = prog.func("type_evaluation", "ConditionEvaluator.visit_Call")
    need_locals(vc, "exclude_any", "match")
    ok = any(isinstance(n, ast.Assign) and norm(n.targets[0]) == "exclude_any" and isinstance(n.value, ast.Constant) and n.value.value is True for n in walk_no_nested(vc))
    chk.ob("R20.4", "type_evaluation::ConditionEvaluator.visit_Call::is_of_type-default-exclude_any", ok, prog.site("type_evaluation", vc), "is_of_type() must default to exclude_any=True (Any matches only Any)")
    it = prog.func("type_evaluation", "ConditionEvaluator.visit_is_of_type")
    d = it.args.kw_defaults
    names = [a.arg for a in it.args.kwonlyargs]
    ok = "exclude_any" in names and isinstance(d[names.index("exclude_any")], ast.Constant) and d[names.index("exclude_any")].value is True
    chk.ob("R20.4", "type_evaluation::ConditionEvaluator.visit_is_of_type::default-exclude_any", ok, prog.site("type_evaluation", it), "literal comparisons go through visit_is_of_type with its default exclude_any=True")
    ca = prog.func("type_evaluation", "can_assign_maybe_exclude_any")
    ok = False
    for n in walk_no_nested(ca):
        if isinstance(n, ast.If) and norm(n.test) == "exclude_any":
            withs = [w for w in n.body if isinstance(w, ast.With)]
            ok = bool(withs) and "set_exclude_any()" in norm(withs[0].items[0].context_expr) and all("set_exclude_any" not in norm(s) for s in n.orelse) and bool(n.orelse)
    chk.ob("R20.4", "type_evaluation::can_assign_maybe_exclude_any::mode-iff-flag", ok, prog.site("type_evaluation", ca), "set_exclude_any() must be entered exactly when the flag is set")
    cr = prog.func("type_evaluation", "ConditionReturn.reverse")
    t = norm(cr)
    chk.ob(
        "R20.4",
        "type_evaluation::ConditionReturn.reverse::swaps",
        "left_varmap=self.right_varmap" in t and "right_varmap=self.left_varmap" in t and "NotCondition(self.condition)" in t,
        prog.site("type_evaluation", cr),
        "`not` must swap the two varmaps and negate the condition",
    )
    bo = prog.func("type_evaluation", "ConditionEvaluator.visit_BoolOp")
    need_locals(bo, "result", "is_and")
    # short-circuit arms: for `and`, an operand with left_varmap None returns a right-only result; for `or`, right_varmap None returns left-only
    ok_and = ok_or = False
    for n in walk_no_nested(bo):
        if isinstance(n, ast.If) and norm(n.test) == "result.left_varmap is None":
            gs = {(norm(g), pol) for g, pol in guards_of(n, bo)}
            if ("is_and", True) in gs:
                ok_and = _one_sided_return(n.body[-1], "right_varmap", "left_varmap")
        if isinstance(n, ast.If) and norm(n.test) == "result.right_varmap is None":
            gs = {(norm(g), pol) for g, pol in guards_of(n, bo)}
            if ("is_and", False) in gs:
                ok_or = _one_sided_return(n.body[-1], "left_varmap", "right_varmap")
    chk.ob("R20.4", "type_evaluation::ConditionEvaluator.visit_BoolOp::short-circuit", ok_and and ok_or, prog.site("type_evaluation", bo), "`and` must fail as soon as one operand definitely fails, `or` must succeed as soon as one definitely succeeds")


def r20_5(prog: Program, chk: Check) -> None:
    chk.rule(
        "R20.5",
        "version / platform conditions are decided on the interpreter's own value: the operand compared for sys.<name> is sys.<name> itself "
        "(the whole version tuple, so (3, 12, 0) and (3, 12) compare as Python compares them)",
        floor=2,
    )
    m = "type_evaluation"
    fn = prog.func(m, "ConditionEvaluator.visit_Compare")
    from .common import guards_of as _g

    impl0 = [c for c in calls_in(fn, "impl") if len(c.args) == 2 and isinstance(c.args[0], ast.Name)]
    if not impl0:
        raise AnchorError("visit_Compare: data.impl(<operand>, <literal>) not found")
    operand = impl0[0].args[0].id  # type: ignore[attr-defined]
    found = 0
    for n in walk_no_nested(fn):
        if isinstance(n, ast.Assign) and len(n.targets) == 1 and isinstance(n.targets[0], ast.Name) and n.targets[0].id == operand:
            attr = None
            for t, inbody in _g(n, fn):
                if inbody and isinstance(t, ast.Compare) and norm(t.left) == "node.left.attr" and isinstance(t.comparators[0], ast.Constant):
                    attr = t.comparators[0].value
            if attr is None:
                continue
            found += 1
            v = n.value
            if isinstance(v, ast.Call) and last_attr(v) == "tuple" and len(v.args) == 1:
                v = v.args[0]
            ok = norm(v) == f"sys.{attr}" or norm(v) in ("getattr(sys, node.left.attr)", f"getattr(sys, '{attr}')")
            chk.ob("R20.5", f"{m}::ConditionEvaluator.visit_Compare::operand-for-sys.{attr}", ok, prog.site(m, n),
                   f"the condition on sys.{attr} is decided on `{norm(n.value)}`; the specification compares sys.{attr} itself")
    if found < 2:
        raise AnchorError("visit_Compare: operand assignments for sys.platform / sys.version_info not found")
    impl = [c for c in calls_in(fn, "impl") if len(c.args) == 2]
    ok = bool(impl) and all(norm(c.args[0]) == operand and norm(c.args[1]).endswith(".val") for c in impl)
    chk.ob("R20.5", f"{m}::ConditionEvaluator.visit_Compare::compares-operand-with-literal", ok, prog.site(m, fn), f"the comparison must be data.impl({operand}, <literal>.val): runtime value on the left, the literal on the right")


def r20_6(prog: Program, chk: Check) -> None:
    chk.rule(
        "R20.6",
        "joining the varmaps of and/or operands: a parameter absent from an operand's varmap is unconstrained there, so either only "
        "parameters constrained by every operand are kept (intersection of keys) or an absent entry is not read as Never",
        floor=1,
    )
    m = "type_evaluation"
    fn = prog.func(m, "unite_varmaps")
    keys_src = local_assignments(fn, "keys")
    inter = False
    for a in keys_src:
        t = norm(a)
        if "set.intersection(" in t or ".intersection(" in t or "operator.and_" in t:
            inter = True
    for n in walk_no_nested(fn):
        if isinstance(n, ast.AugAssign) and isinstance(n.op, ast.BitAnd) and norm(n.target) == "keys":
            inter = True
    gets = [c for c in calls_in(fn, "get") if len(c.args) == 2]
    bottom_default = any(norm(c.args[1]) in ("NO_RETURN_VALUE", "Never") for c in gets)
    subscript = any(isinstance(x, ast.Subscript) and norm(x.slice) == "key" for x in ast.walk(fn))
    if not keys_src and not gets and not subscript:
        raise AnchorError("unite_varmaps: neither `keys` nor per-key lookups found")
    chk.ob("R20.6", f"{m}::unite_varmaps::absent-is-not-never", inter or not bottom_default, prog.site(m, fn),
           "the keys are not restricted to those present in every varmap while an absent entry defaults to Never: for `a == 1 and b == 'x'` the undecided side "
           "narrows a by the operand that only constrained b to Never, losing member combinations")


# ------------------------------------------------------------------- R20.7
def _eval_chunk(args):
    part, nparts, limit, full_positions = args
    import ast as _ast

    from ..minterp import Sym
    from ..model import Program as _P
    from . import eval_model as evm

    model = evm.EvalModel(_P())
    n = 0
    classes: Dict[str, Dict[str, object]] = {}

    def note(key: str, bad: bool, detail) -> None:
        c = classes.setdefault(key, {"n": 0, "bad": 0, "witness": []})
        c["n"] += 1  # type: ignore[operator]
        if bad:
            c["bad"] += 1  # type: ignore[operator]
            w = c["witness"]
            w.append(detail)  # type: ignore[union-attr]
            w.sort(key=lambda d: (len(d["evaluator"]), len(d["x"]) + len(d["y"]), repr(d)))  # type: ignore[union-attr]
            del w[3:]  # type: ignore[arg-type]

    progs = list(evm.programs())
    if limit:
        progs = progs[::limit]
    for idx, (src, ref) in enumerate(progs):
        if idx % nparts != part:
            continue
        fn = _ast.parse(src).body[0]
        for xs in evm.ARG_TYPES:
            for ys in (("int",), ("str", "int")):
                uses_kinds = "is_provided" in src or "is_positional" in src or "is_keyword" in src
                for pos in (evm.POSITIONS if (full_positions or uses_kinds) else evm.POSITIONS[:1]):
                    n += 1
                    pm = {k: (Sym(v) if v in ("ARGS", "KWARGS", "DEFAULT", "UNKNOWN") else v) for k, v in pos.items()}
                    got = model.evaluate(fn, {"x": model.union(xs), "y": model.union(ys)}, pm)
                    d = {"evaluator": src, "x": " | ".join(xs), "y": " | ".join(ys), "positions": pos}
                    if got[0] == "crash":
                        note("no-crash", True, {**d, "error": got[1]})
                        continue
                    note("no-crash", False, d)
                    labels, shown, invalid = got
                    note("generated evaluators are valid", bool(invalid), {**d, "invalid": invalid})
                    if invalid:
                        continue
                    wl, we = evm.reference(ref, xs, ys, pos)
                    if len(xs) > 1 and len(ys) > 1:
                        # two union arguments: the documented algorithm narrows each variable on its own, so combinations of
                        # members that the conditions exclude may still contribute; nothing a real combination produces may be lost
                        note("two union arguments: every member combination's result and error is included", not (wl <= labels and set(we) <= set(shown)), {**d, "result": sorted(labels), "errors": shown, "specified_at_least": [sorted(wl), we]})
                    else:
                        note("result = union of the results for each member of the union argument", labels != wl, {**d, "result": sorted(labels), "specified": sorted(wl)})
                        note("show_error fires exactly in the branches some member executes", shown != we, {**d, "errors": shown, "specified": we})
    return n, classes


def r20_7(prog: Program, chk: Check) -> None:
    import multiprocessing as mp
    import os as _os

    limit = 5 if _os.environ.get("VERIF_SELFTEST") else 0
    full_positions = chk.tier == "thorough" or bool(_os.environ.get("VERIF_SELFTEST"))
    chk.rule(
        "R20.7",
        "the type evaluator as a finite model: EvaluateVisitor, ConditionEvaluator (is_of_type with and without exclude_any, is_provided / is_positional / is_keyword, not, and, or), "
        "ConditionReturn.reverse, CombinedReturn.make, EvalContext.narrow_variables (a real context manager), decompose_union, can_assign_maybe_exclude_any and unite_varmaps are "
        "interpreted from their AST on 381 generated evaluator bodies (if / elif / else, nested if, return, show_error) x 10 types for x (incl. unions and Any) x 2 for y x 4 argument-kind "
        "assignments; the result equals the union of the results for each member of a union argument evaluated separately (Any matching only Any / object unless exclude_any=False, a matching test "
        "narrowing the variable), show_error fires exactly in the branches some member executes; with two union arguments nothing a member combination produces is lost",
        floor=5,
    )
    procs = 2 if _os.environ.get("VERIF_SELFTEST") else min(16, _os.cpu_count() or 1)
    with mp.get_context("fork").Pool(procs) as pl:
        results = pl.map(_eval_chunk, [(i, procs * 3, limit, full_positions) for i in range(procs * 3)])
    total = 0
    merged: Dict[str, Dict[str, object]] = {}
    for n, classes in results:
        total += n
        for k, c in classes.items():
            m = merged.setdefault(k, {"n": 0, "bad": 0, "witness": []})
            m["n"] += c["n"]  # type: ignore[operator]
            m["bad"] += c["bad"]  # type: ignore[operator]
            m["witness"] = sorted(list(m["witness"]) + list(c["witness"]), key=lambda d: (len(d["evaluator"]), len(d["x"]) + len(d["y"]), repr(d)))[:3]  # type: ignore[arg-type]
    chk.model_evaluations += total
    chk.analysed["evaluator_model"] = {"evaluations": total}
    site = prog.site("type_evaluation", prog.func("type_evaluation", "EvaluateVisitor.visit_If"))
    for k, c in sorted(merged.items()):
        wit = c["witness"]
        chk.ob("R20.7", f"type_evaluation::evaluator-model::{k}", int(c["bad"]) == 0, site,  # type: ignore[arg-type]
               f"{c['n']} evaluations, {c['bad']} failing" + (f"; smallest: {wit[0]}" if wit else ""), witness=wit)  # type: ignore[index]


def run(prog: Program, chk: Check) -> None:
    guard(chk, r20_1, prog, chk)
    guard(chk, r20_2, prog, chk)
    guard(chk, r20_3, prog, chk)
    guard(chk, r20_4, prog, chk)
    guard(chk, r20_5, prog, chk)
    guard(chk, r20_6, prog, chk)
    guard(chk, r20_7, prog, chk)
    guard(chk, r20_8, prog, chk)


# ------------------------------------------------------------------- R20.8
def r20_8(prog: Program, chk: Check) -> None:
    from . import assign_model as amod
    from . import call_model as cmod

    chk.rule(
        "R20.8",
        "the variables an evaluator sees for omitted arguments are the documented ones, as a finite model: Signature.check_call_preprocessed / bind_arguments / "
        "check_call_with_bound_args (the call model of C06) are interpreted for an evaluated function `f(p0: int = ..., p1: int = 1)` and calls with 0, 1 and 2 arguments, with an "
        "evaluator that records what it is given: an omitted argument whose default is `...` has the type of the parameter's annotation, an omitted argument with a literal default "
        "X has Literal[X], a provided argument has its own type, and the positions are DEFAULT for the omitted ones (docs/type_evaluation.md, `with_defaults`)",
        floor=2,
    )
    m = cmod.CallModel(prog)
    params = [("POSITIONAL_OR_KEYWORD", "...", "int"), ("POSITIONAL_OR_KEYWORD", True, "int")]
    wrong, crashes = [], []
    n = 0

    def show(v) -> str:
        if isinstance(v, amod.V):
            if v._kind == "KnownValue":
                return f"Literal[{v._attrs['val']!r}]"
            if v._kind == "TypedValue":
                return getattr(v._attrs["typ"], "__name__", str(v._attrs["typ"]))
            return v._kind
        return repr(v)

    for positionals in ((), (5,), (5, 2)):
        n += 1
        probe: List[object] = []
        r = m.run(params, list(positionals), {}, evaluator_probe=probe)
        d = {"evaluator": "def f(p0: int = ..., p1: int = 1)", "call": f"f({', '.join(map(repr, positionals))})"}
        if isinstance(r, tuple) and r and r[0] == "crash":
            crashes.append({**d, "error": r[1]})
            continue
        if len(probe) != 1:
            wrong.append({**d, "problem": f"the evaluator was consulted {len(probe)} times"})
            continue
        varmap, positions = probe[0]  # type: ignore[misc]
        want = {"p0": "int" if len(positionals) < 1 else "Literal[5]", "p1": "Literal[1]" if len(positionals) < 2 else "Literal[2]"}
        got = {k: show(v) for k, v in varmap.items()}
        want_pos = {"p0": "DEFAULT" if len(positionals) < 1 else "0", "p1": "DEFAULT" if len(positionals) < 2 else "1"}
        got_pos = {k: str(v) for k, v in positions.items()}
        if got != want or got_pos != want_pos:
            wrong.append({**d, "variables": got, "documented": want, "positions": got_pos, "documented positions": want_pos})
    chk.model_evaluations += n
    site = prog.site("signature", prog.func("signature", "Signature.check_call_with_bound_args"))
    chk.ob("R20.8", "signature::Signature.check_call_with_bound_args::evaluator-variables-of-omitted-arguments", not wrong, site, f"{n} calls, {len(wrong)} hand the evaluator other variables" + (f"; first: {wrong[0]}" if wrong else ""), witness=wrong[:3])
    chk.ob("R20.8", "signature::Signature.check_call_with_bound_args::evaluator-variables::no-crash", not crashes, site, f"{len(crashes)} crashes" + (f"; first: {crashes[0]}" if crashes else ""), witness=crashes[:3])
