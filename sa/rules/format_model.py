"""Finite model of the str.format template parser (C17): parse_format_string,
_parse_children, _parse_replacement_field and the _ParserState methods are
interpreted from their AST on every template over a small alphabet, and the
verdict "template is malformed" is compared with CPython's own formatter applied
to the same template with arguments that satisfy every field."""

from __future__ import annotations

import ast
import itertools
import re
from typing import Any, Dict, List, Optional, Sequence, Tuple

from ..fold import CannotFold, Folder
from ..minterp import AssertionFailed, Interp, ModelError, Obj, Opaque, PyRaise, Sym, Unsupported
from ..model import AnchorError, Program

ALPHABET = "{}a0.[]!rx:"


class _Anything:
    """Satisfies every field access and every format spec."""

    def __getattr__(self, name: str) -> "_Anything":
        if name.startswith("__"):
            raise AttributeError(name)
        return self

    def __getitem__(self, key: object) -> "_Anything":
        return self

    def __format__(self, spec: str) -> str:
        return ""

    def __repr__(self) -> str:
        return ""

    __str__ = __repr__


class _Kwargs(dict):
    def __missing__(self, key: str) -> _Anything:
        return _Anything()


# CPython errors that do not depend on the type of the argument a field selects
TEMPLATE_ERRORS = (
    "Single '}' encountered",
    "Single '{' encountered",
    "expected '}' before end of string",
    "unmatched '{' in format spec",
    "Empty attribute in format string",
    "Unknown conversion specifier",
    "end of string while looking for conversion specifier",
    "expected ':' after conversion specifier",
    "Only '.' or '[' may follow ']'",
    "Missing ']' in format string",
    "cannot switch from",
    "Max string recursion exceeded",
    "Too many decimal digits",
)


def cpython_outcome(template: str, nargs: int, kwnames: Sequence[str]) -> Tuple[str, str]:
    """("ok" | "template-error" | "missing-argument" | "value-dependent", message) for
    template.format(*nargs universal values, **kwnames).  Runs CPython's str.format on the
    template only - nothing of pyanalyze."""
    try:
        template.format(*([_Anything()] * nargs), **{k: _Anything() for k in kwnames})
    except (IndexError, KeyError) as e:
        return "missing-argument", f"{type(e).__name__}: {e}"
    except ValueError as e:
        msg = str(e)
        if any(t in msg for t in TEMPLATE_ERRORS):
            return "template-error", msg
        return "value-dependent", msg  # e.g. a format code that the converted str does not support
    except (TypeError, AttributeError) as e:
        return "value-dependent", f"{type(e).__name__}: {e}"
    return "ok", ""


class FormatModel:
    def __init__(self, prog: Program) -> None:
        self.prog = prog
        f = lambda q: prog.func("format_strings", q)  # noqa: E731
        self.entry = f("parse_format_string")
        self.module_defs = {"_parse_children": f("_parse_children"), "_parse_replacement_field": f("_parse_replacement_field")}
        self.method_defs = {("_ParserState", m): f(f"_ParserState.{m}") for m in ("peek", "next", "add_error")}
        folder = Folder(prog, "format_strings")
        self.globals: Dict[str, Any] = {}
        for name in ("_FORMAT_STRING_CONVERSIONS",):
            try:
                self.globals[name] = folder.table(name)
            except (CannotFold, AnchorError) as e:
                raise AnchorError(f"format_strings.{name} cannot be folded: {e}")
        rx = prog.module_assign("format_strings", "_IDENTIFIER_REGEX")
        if not (isinstance(rx, ast.Call) and rx.args and isinstance(rx.args[0], ast.Constant)):
            raise AnchorError("_IDENTIFIER_REGEX is not re.compile(<constant>)")
        pat = re.compile(rx.args[0].value)
        self.globals["_IDENTIFIER_REGEX"] = Obj("Pattern", match=lambda s: pat.match(s) is not None)

    def errors(self, template: str) -> List[Any]:
        def mk_state(args: List[Any]) -> Obj:
            return Obj("_ParserState", string=args[0], current_index=0, errors=[])

        funcs = {
            "_ParserState": mk_state,
            "FormatString": lambda args: Obj("FormatString", children=args[0]),
            "ReplacementField": lambda args: Obj("ReplacementField", arg_name=args[0], index_attribute=args[1] if len(args) > 1 else (), conversion=args[2] if len(args) > 2 else None, format_spec=args[3] if len(args) > 3 else None),
        }
        it = Interp({}, {}, (), funcs, None, self.method_defs, self.module_defs, self.globals)
        try:
            res = it.call_def(self.entry, [template], self.entry)
        except Unsupported as u:
            raise AnchorError(f"parse_format_string cannot be modelled: {u}")
        except AssertionFailed as af:
            raise AnchorError(f"parse_format_string: assertion reached: {af}")
        except (PyRaise, ModelError) as e:
            return [("crash", str(e))]
        if not (isinstance(res, tuple) and len(res) == 2):
            raise AnchorError("parse_format_string did not return (FormatString, errors)")
        return list(res[1])

    # ------------------------------------------------------------ whole call
    def call_errors(self, template: str, nargs: int, kwnames: Sequence[str]) -> List[str]:
        """Messages shown by _str_format_impl for "<template>".format(*nargs values, **kwnames)."""
        impl = self.prog.func("implementation", "_str_format_impl")
        shown: List[str] = []

        def show_error(recv: Any, args: List[Any]) -> None:
            m = args[0] if args else None
            shown.append(m.label[4:] if isinstance(m, Opaque) and m.label.startswith("str:") else str(m))

        self_v = Obj("KnownValue", val=template)
        args_v = Obj("SequenceValue", get_member_sequence=lambda: [Opaque(f"arg{i}") for i in range(nargs)])
        kw_v = Obj("TypedDictValue", items={k: Obj("TypedDictEntry", required=True, typ=Opaque("v")) for k in kwnames})
        ctx = Obj("CallContext", vars={"self": self_v, "args": args_v, "kwargs": kw_v}, visitor=Obj("Visitor", in_union_decomposition=False))

        def isinstance_hook(v: Any, cls: str) -> Optional[bool]:
            if cls in ("KnownValue", "SequenceValue", "DictIncompleteValue", "TypedDictValue", "ReplacementField", "FormatString"):
                return isinstance(v, Obj) and v._kind == cls
            return None

        funcs = {
            "_ParserState": lambda args: Obj("_ParserState", string=args[0], current_index=0, errors=[]),
            "FormatString": lambda args: Obj("FormatString", children=args[0]),
            "ReplacementField": lambda args: Obj("ReplacementField", arg_name=args[0], index_attribute=args[1] if len(args) > 1 else (), conversion=args[2] if len(args) > 2 else None, format_spec=args[3] if len(args) > 3 else None),
            "replace_known_sequence_value": lambda args: args[0],
            "TypedValue": lambda args: Opaque("TypedValue"),
        }
        f = lambda q: self.prog.func("format_strings", q)  # noqa: E731
        method_defs = dict(self.method_defs)
        method_defs[("FormatString", "iter_replacement_fields")] = f("FormatString.iter_replacement_fields")
        method_defs[("ReplacementField", "iter_replacement_fields")] = f("ReplacementField.iter_replacement_fields")
        module_defs = dict(self.module_defs)
        module_defs["parse_format_string"] = self.entry
        it = Interp({}, {"show_error": show_error}, (), funcs, isinstance_hook, method_defs, module_defs, self.globals)
        try:
            it.call_def(impl, [ctx], impl)
        except Unsupported as u:
            raise AnchorError(f"_str_format_impl cannot be modelled: {u}")
        except AssertionFailed as af:
            raise AnchorError(f"_str_format_impl: assertion reached: {af}")
        except (PyRaise, ModelError) as e:
            return [f"<crash: {e}>"]
        return shown
