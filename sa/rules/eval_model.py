"""Finite model of type evaluation functions (C20): EvaluateVisitor,
ConditionEvaluator, ConditionReturn.reverse, CombinedReturn.make,
EvalContext.narrow_variables, decompose_union, can_assign_maybe_exclude_any and
unite_varmaps are interpreted from their AST on evaluator bodies generated from
the restricted grammar (real `ast` nodes), over a four-object universe of types,
and compared with the per-member semantics the specification prescribes."""

from __future__ import annotations

import ast
import itertools
from typing import Any, Dict, FrozenSet, Iterator, List, Optional, Sequence, Tuple

from ..minterp import AssertionFailed, Interp, ModelError, Obj, Opaque, PyRaise, Sym, Unsupported
from ..model import AnchorError, Program

# universe of runtime objects and the types over them
OBJECTS = ("1", "2", "'a'", "None")
TYPES: Dict[str, FrozenSet[str]] = {
    "int": frozenset({"1", "2"}),
    "str": frozenset({"'a'"}),
    "NoneT": frozenset({"None"}),
    "Lit1": frozenset({"1"}),
    "object": frozenset(OBJECTS),
}
RETURNS = ("R0", "R1", "R2", "R3", "R4")  # distinct result types (opaque labels)


class EvalModel:
    def __init__(self, prog: Program) -> None:
        self.prog = prog
        f = lambda q: prog.func("type_evaluation", q)  # noqa: E731
        self.method_defs: Dict[Tuple[str, str], ast.FunctionDef] = {}
        for cls, kind in (("EvaluateVisitor", "EvaluateVisitor"), ("ConditionEvaluator", "ConditionEvaluator")):
            ci = prog.cls(cls)
            for name, fn in ci.methods.items():
                self.method_defs[(kind, name)] = fn
        self.method_defs[("ConditionReturn", "reverse")] = f("ConditionReturn.reverse")
        self.method_defs[("CombinedReturnCls", "make")] = f("CombinedReturn.make")
        self.method_defs[("EvalContext", "narrow_variables")] = f("EvalContext.narrow_variables")
        self.method_defs[("Evaluator", "evaluate_generic_type")] = f("Evaluator.evaluate_generic_type")
        self.module_defs = {n: f(n) for n in ("decompose_union", "can_assign_maybe_exclude_any", "unite_varmaps")}
        self.never = self.value(frozenset(), "Never")

    # -------------------------------------------------------------- values
    def value(self, members: Any, label: str, is_any: bool = False, vals: Optional[List[Obj]] = None, ret: Optional[str] = None) -> Obj:
        kind = "MultiValuedValue" if vals is not None else "AnyValue" if is_any else "TypedValue"
        v = Obj(kind, members=members, label=label, vals=tuple(vals) if vals is not None else None, ret=ret)
        v._attrs["can_assign"] = lambda other, ctx, me=v: self._can_assign(me, other, ctx)
        v._attrs["substitute_typevars"] = lambda tv_map, me=v: me
        return v

    def atom(self, name: str) -> Obj:
        if name == "Any":
            return self.value(frozenset(OBJECTS), "Any", is_any=True)
        return self.value(TYPES[name], name)

    def union(self, names: Sequence[str]) -> Obj:
        parts = [self.atom(n) for n in names]
        if len(parts) == 1:
            return parts[0]
        return self.value(frozenset().union(*[p.get("members", None) for p in parts]), " | ".join(names), vals=parts)

    def ret_type(self, label: str) -> Obj:
        return self.value(frozenset({label}), label, ret=label)

    def _members_list(self, v: Obj) -> List[Obj]:
        return list(v.get("vals", None)) if v._kind == "MultiValuedValue" else [v]

    def _can_assign(self, left: Obj, right: Obj, ctx: Obj) -> Any:
        """Assignability oracle of the universe, with the Any rule of the specification:
        under exclude_any, Any on the right matches only Any / object on the left."""
        err = Obj("CanAssignError", message="incompatible")
        for r in self._members_list(right):
            if r._kind == "AnyValue":
                if ctx.get("exclude_any_flag", None)[0] and not (left._kind == "AnyValue" or left.get("label", None) == "object"):
                    return err
                continue
            if left._kind == "AnyValue":
                continue
            if not r.get("members", None) <= left.get("members", None):
                return err
        return {}

    def unite(self, args: List[Any]) -> Obj:
        flat: List[Obj] = []
        for a in args:
            for m in self._members_list(a):
                if not any(m.get("label", None) == x.get("label", None) for x in flat):
                    flat.append(m)
        if not flat:
            return self.never
        if len(flat) == 1:
            return flat[0]
        return self.value(frozenset().union(*[m.get("members", None) for m in flat]), " | ".join(m.get("label", None) for m in flat), vals=flat)

    # ----------------------------------------------------------------- run
    def evaluate(self, fn_node: ast.FunctionDef, variables: Dict[str, Obj], positions: Dict[str, Any]) -> Any:
        """-> (set of result labels, sorted list of show_error messages, invalid-evaluation messages)"""
        flag = [False]

        def set_exclude_any():
            def enter():
                flag.append(flag[0])
                flag[0] = True

            def exit_(exc=None):
                flag[0] = flag.pop()

            return Obj("ContextManager", __enter__=enter, __exit__=exit_)

        cactx = Obj("CanAssignContext", exclude_any_flag=flag, set_exclude_any=set_exclude_any, display_value=lambda v: "value")
        ectx = Obj("EvalContext", variables=dict(variables), positions=dict(positions), can_assign_context=cactx, tv_map={})
        interp_holder: List[Interp] = []

        def evaluate_type(node: ast.AST) -> Obj:
            if isinstance(node, ast.Name):
                if node.id in RETURNS:
                    return self.ret_type(node.id)
                if node.id in TYPES or node.id == "Any":
                    return self.atom(node.id)
            if isinstance(node, ast.Constant) and node.value is None:
                return self.atom("NoneT")
            raise AnchorError(f"evaluator model: type expression {ast.dump(node)} is outside the generated grammar")

        evaluator = Obj("Evaluator", node=fn_node, return_annotation=self.ret_type("Rdefault"), evaluate_type=evaluate_type, evaluate_value=lambda node: Opaque("value"))

        def mk(kind: str, fields: Sequence[str], defaults: Dict[str, Any] = {}):
            def ctor(args, kwargs=None):
                vals = dict(defaults)
                vals.update(dict(zip(fields, args)))
                vals.update(kwargs or {})
                for fld in fields:
                    vals.setdefault(fld, None)
                return Obj(kind, **vals)

            ctor.wants_kwargs = True  # type: ignore[attr-defined]
            return ctor

        def visit_of(kind: str):
            def visit(node: Any, me: Obj = None):  # bound below
                raise RuntimeError

            return visit

        def make_visitor(kind: str, **fields: Any) -> Obj:
            v = Obj(kind, **fields)

            def visit(node: Any) -> Any:
                name = "visit_" + type(node).__name__
                md = self.method_defs.get((kind, name)) or self.method_defs.get((kind, "generic_visit"))
                if md is None:
                    raise AnchorError(f"{kind} has neither {name} nor generic_visit")
                return interp_holder[0].call_def(md, [v, node], md)

            v._attrs["visit"] = visit
            return v

        def ctor_condition_evaluator(args, kwargs=None):
            vals = dict(zip(("evaluator", "ctx", "validation_mode"), args))
            vals.update(kwargs or {})
            vals.setdefault("validation_mode", False)
            return make_visitor("ConditionEvaluator", errors=[], **vals)

        ctor_condition_evaluator.wants_kwargs = True  # type: ignore[attr-defined]

        def constrain_value(args: List[Any]) -> Obj:
            val, constraint = args
            typ = constraint.get("value", None).get("pattern_value", None)
            kept = []
            for m in self._members_list(val):
                if m._kind == "AnyValue":
                    kept.append(typ)
                elif m.get("members", None) <= typ.get("members", None) or typ._kind == "AnyValue":
                    kept.append(m)
            return self.unite(kept)

        def exit_stack(args: List[Any]) -> Obj:
            entered: List[Obj] = []

            def enter_context(cm: Obj) -> Any:
                r = cm.get("__enter__", None)()
                entered.append(cm)
                return r

            def exit_(exc=None):
                while entered:
                    entered.pop().get("__exit__", None)(exc)

            return Obj("ExitStack", __enter__=lambda: None, __exit__=exit_, enter_context=enter_context)

        def isinstance_hook(v: Any, cls: str) -> Optional[bool]:
            value_kinds = ("TypedValue", "AnyValue", "MultiValuedValue", "KnownValue")
            if cls == "Value":
                return isinstance(v, Obj) and v._kind in value_kinds
            if cls in value_kinds + ("CombinedReturn", "CanAssignError", "UserRaisedError", "InvalidEvaluation", "SequenceValue", "AnnotatedValue"):
                return isinstance(v, Obj) and v._kind == cls
            return None

        funcs = {
            "ConditionEvaluator": ctor_condition_evaluator,
            "ConditionReturn": mk("ConditionReturn", ("condition", "left_varmap", "right_varmap")),
            "CombinedReturn": mk("CombinedReturn", ("children",)),
            "NullCondition": mk("NullCondition", ()),
            "ConditionList": mk("ConditionList", ("conditions",)),
            "NotCondition": mk("NotCondition", ("condition",)),
            "ArgumentKindCondition": mk("ArgumentKindCondition", ("argument", "function")),
            "IsOfTypeCondition": mk("IsOfTypeCondition", ("arg", "op", "original_arg_type", "remaining_type", "expected_type", "exclude_any")),
            "UserRaisedError": mk("UserRaisedError", ("message", "active_conditions", "argument")),
            "InvalidEvaluation": mk("InvalidEvaluation", ("message", "node")),
            "Constraint": mk("Constraint", ("varname", "constraint_type", "positive", "value")),
            "IsAssignablePredicate": mk("IsAssignablePredicate", ("pattern_value", "ctx", "positive_only")),
            "VarnameWithOrigin": lambda args: Opaque("varname"),
            "KnownValue": lambda args: self.atom("NoneT") if args and args[0] is None else Opaque("KnownValue"),
            "constrain_value": constrain_value,
            "unite_values": self.unite,
            "unify_bounds_maps": lambda args: {},
            "unannotate": lambda args: args[0],
        }
        globals_ = {
            "ast": ast,
            "NO_RETURN_VALUE": self.never,
            "CombinedReturn": Obj("CombinedReturnCls", __call__=lambda children: Obj("CombinedReturn", children=children)),
            "contextlib": Obj("contextlib", ExitStack=lambda: exit_stack([])),
        }
        for m in ("ARGS", "KWARGS", "DEFAULT", "UNKNOWN"):
            globals_[m] = Sym(m)
        it = Interp({}, {}, (), funcs, isinstance_hook, self.method_defs, self.module_defs, globals_)
        interp_holder.append(it)
        visitor = make_visitor("EvaluateVisitor", evaluator=evaluator, ctx=ectx, errors=[], active_conditions=[], validation_mode=False)
        try:
            res = it.call_def(self.method_defs[("EvaluateVisitor", "run")], [visitor], self.method_defs[("EvaluateVisitor", "run")])
        except Unsupported as u:
            raise AnchorError(f"the type evaluator cannot be modelled: {u}")
        except AssertionFailed as af:
            return ("crash", f"assertion: {af}")
        except (PyRaise, ModelError) as e:
            return ("crash", str(e))
        errs = visitor.get("errors", None)
        shown = sorted(e.get("message", None) for e in errs if e._kind == "UserRaisedError")
        invalid = [str(e.get("message", None)) for e in errs if e._kind == "InvalidEvaluation"]
        labels = frozenset(m.get("label", None) for m in self._members_list(res)) if isinstance(res, Obj) else frozenset({repr(res)})
        return labels, shown, invalid


# ---------------------------------------------------------------- reference
# The specification's semantics for ONE member per argument ("for a union argument the result
# is the union of the results for each member evaluated separately"): a condition maps a
# binding {variable: member} to (truth, binding inside the true branch).  A matching
# is_of_type() narrows the variable to the tested type inside its branch - visible only for
# an Any member, every other member is already inside the tested type.
Cond = Any


def _is_of_type(var: str, typ: str, exclude_any: bool = True):
    def ev(binding: Dict[str, str], positions: Dict[str, Any]):
        m = binding[var]
        if m == "Any":
            ok = (not exclude_any) or typ in ("object", "Any")
            return ok, ({**binding, var: typ} if ok else binding)
        ok = True if typ == "Any" else TYPES[m] <= TYPES[typ]
        return ok, binding

    src = f"is_of_type({var}, {typ}" + ("" if exclude_any else ", exclude_any=False") + ")"
    return src, ev


def _kind(fn: str, var: str):
    def ev(binding: Dict[str, str], positions: Dict[str, Any]):
        p = positions[var]
        if fn == "is_provided":
            ok = p not in ("DEFAULT", "UNKNOWN")
        elif fn == "is_positional":
            ok = p == "ARGS" or isinstance(p, int)
        else:
            ok = p == "KWARGS" or (isinstance(p, str) and p not in ("ARGS", "DEFAULT", "UNKNOWN"))
        return ok, binding

    return f"{fn}({var})", ev


def _not(c):
    s, e = c
    # the branch taken is the same block of code, entered with the same narrowing
    def ev(b, p):
        t, b1 = e(b, p)
        return (not t), b1

    return f"not {s}", ev


def _and(c1, c2):
    (s1, e1), (s2, e2) = c1, c2

    def ev(b, p):
        t1, b1 = e1(b, p)
        if not t1:
            return False, b
        t2, b2 = e2(b1, p)
        return (True, b2) if t2 else (False, b)

    return f"{s1} and {s2}", ev


def _or(c1, c2):
    (s1, e1), (s2, e2) = c1, c2

    def ev(b, p):
        t1, b1 = e1(b, p)
        if t1:
            return True, b1
        t2, b2 = e2(b, p)
        return (True, b2) if t2 else (False, b)

    return f"{s1} or {s2}", ev


def atomic_conditions():
    return [
        _is_of_type("x", "int"), _is_of_type("x", "str"), _is_of_type("x", "Lit1"), _is_of_type("y", "int"), _is_of_type("x", "object"),
        _is_of_type("x", "int", False), _kind("is_provided", "y"), _kind("is_positional", "x"),
    ]


def conditions():
    atoms = atomic_conditions()
    out = list(atoms)
    for c in atoms[:5]:
        out.append(_not(c))
    for c1, c2 in itertools.permutations(atoms[:4] + atoms[6:7], 2):
        out.append(_and(c1, c2))
        out.append(_or(c1, c2))
    return out


def programs():
    """(source, reference function) for bodies of the restricted grammar."""
    conds = conditions()
    for cs, ce in conds:
        for with_error, has_else in itertools.product((False, True), repeat=2):
            body = f"    if {cs}:\n" + ("        show_error('e0')\n" if with_error else "") + "        return R0\n"
            body += "    else:\n        return R1\n" if has_else else "    return R2\n"

            def ref(b, p, ce=ce, with_error=with_error, has_else=has_else):
                if ce(b, p)[0]:
                    return "R0", (["e0"] if with_error else [])
                return ("R1" if has_else else "R2"), []

            yield "def f(x, y):\n" + body, ref
    small = conds[:8] + conds[8:13] + [c for c in conds[13:] if "(y" in c[0] and "(x" in c[0]][:8]
    # two tests of the same variable joined by `or` / `and`: a union argument whose members pass different operands
    atoms = atomic_conditions()
    small += [_or(atoms[0], atoms[1]), _or(atoms[2], atoms[1]), _and(atoms[4], _not(atoms[0]))]
    for (c1s, c1e), (c2s, c2e) in itertools.product(small, repeat=2):
        body = f"    if {c1s}:\n        if {c2s}:\n            show_error('e1')\n            return R0\n        return R1\n    elif {c2s}:\n        return R2\n    show_error('e2')\n    return R3\n"

        def ref2(b, p, c1e=c1e, c2e=c2e):
            t1, b1 = c1e(b, p)
            if t1:
                if c2e(b1, p)[0]:
                    return "R0", ["e1"]
                return "R1", []
            if c2e(b1, p)[0]:
                return "R2", []
            return "R3", ["e2"]

        yield "def f(x, y):\n" + body, ref2


ARG_TYPES = [("int",), ("str",), ("Lit1",), ("NoneT",), ("Any",), ("int", "str"), ("Lit1", "str"), ("int", "NoneT"), ("int", "Any"), ("str", "NoneT", "Lit1"), ("str", "Any")]
POSITIONS = [{"x": 0, "y": 1}, {"x": 0, "y": "DEFAULT"}, {"x": "x", "y": "UNKNOWN"}, {"x": "ARGS", "y": "KWARGS"}]


def reference(ref, xs: Sequence[str], ys: Sequence[str], positions: Dict[str, Any]) -> Tuple[FrozenSet[str], List[str]]:
    """Union over the members of each argument, evaluated separately."""
    labels = set()
    msgs = set()
    for xm in xs:
        for ym in ys:
            r, e = ref({"x": xm, "y": ym}, positions)
            labels.add(r)
            msgs.update(e)
    return frozenset(labels), sorted(msgs)
