"""Finite model of the two signature builders (C13): functions.compute_parameters on the def node
(with _visit_default and translate_vararg_type) and ArgSpecCache.from_signature /
_make_sig_parameter / _get_type_for_parameter on the inspect.Signature that CPython builds for the
same def.  Annotations are evaluated by the interpreted annotation routes of annot_model; the
parameter kinds are the members of pyanalyze's ParameterKind read from its class body."""

from __future__ import annotations

import ast
import inspect
import itertools
from typing import Any, Dict, Iterator, List, Optional, Sequence, Tuple

from ..minterp import AssertionFailed, Interp, ModelError, Obj, Opaque, PyRaise, Sym, Unsupported
from ..model import AnchorError, Program
from . import annot_model as amod
from .annot_model import SV


_MODULES: Dict[str, Any] = {}  # one real class per definition: both builders must see the same class object


class SignatureModel(amod.AnnotModel):
    def __init__(self, prog: Program) -> None:
        super().__init__(prog)
        self.module_defs = dict(self.module_defs)
        for name in ("compute_parameters", "_visit_default", "translate_vararg_type"):
            self.module_defs[name] = prog.func("functions", name)
        self.module_defs["is_positional_only_arg_name"] = prog.func("analysis_lib", "is_positional_only_arg_name")
        self.module_defs["_get_class_name"] = prog.func("arg_spec", "_get_class_name")
        self.module_defs["make_coro_type"] = prog.func("value", "make_coro_type")
        asc = prog.cls("ArgSpecCache")
        self.method_defs = dict(self.method_defs)
        for m in ("from_signature", "_make_sig_parameter", "_get_type_for_parameter"):
            if m not in asc.methods:
                raise AnchorError(f"ArgSpecCache.{m} not found")
            self.method_defs[("ArgSpecCache", m)] = asc.methods[m]
        pk = prog.cls("ParameterKind")
        self.kind_values: Dict[str, int] = {}
        for st in pk.node.body:
            if isinstance(st, ast.Assign) and isinstance(st.targets[0], ast.Name) and isinstance(st.value, ast.Constant) and isinstance(st.value.value, int):
                self.kind_values[st.targets[0].id] = st.value.value
        if "allow_unpack" not in pk.methods:
            raise AnchorError("ParameterKind.allow_unpack not found")
        self.method_defs[("ParameterKind", "allow_unpack")] = pk.methods["allow_unpack"]

    def _sig_session(self, ns: Dict[str, Any]):
        it, ctx, errors = self._session(ns)
        kinds = {name: Obj("ParameterKind", name=name, value=val) for name, val in self.kind_values.items()}
        by_value = {o._attrs["value"]: o for o in kinds.values()}
        pk_cls = Obj("ParameterKindCls", **kinds)

        def to_kind(args: List[Any]) -> Any:
            v = args[0]
            v = int(v) if not isinstance(v, Obj) else v._attrs["value"]
            if v not in by_value:
                raise PyRaise("ValueError", None)
            return by_value[v]

        pk_cls._attrs["__call__"] = lambda v: to_kind([v])
        it.globals["ParameterKind"] = pk_cls
        it.funcs["ParameterKind"] = to_kind
        it.globals["inspect"] = inspect
        it.globals["sys"] = __import__("sys")
        it.globals["collections"] = __import__("collections")
        it.globals["IMPLICIT_CLASSMETHODS"] = ()
        it.globals["__concrete_fstrings__"] = True
        old_hook = it.isinstance_hook

        def hook(v: Any, cls: str) -> Optional[bool]:
            if cls == "CanAssignError":
                return isinstance(v, Obj) and v._kind == "CanAssignError"
            if cls == "type":
                return isinstance(v, type)
            return old_hook(v, cls)

        it.isinstance_hook = hook

        def kw(f):
            f.wants_kwargs = True
            return f

        def param_info(args: List[Any], kwargs: Any = None) -> Any:
            d = dict(zip(("param", "node", "is_self"), args))
            d.update(kwargs or {})
            return Obj("ParamInfo", **d)

        def type_from_runtime(args: List[Any], kwargs: Any = None) -> Any:
            k = dict(kwargs or {})
            k.pop("ctx", None)
            fn = self.module_defs["_type_from_runtime"]
            return it.call_def(fn, [args[0], ctx], fn, k)

        it.funcs.update({
            "ParamInfo": kw(param_info),
            "zip_longest": lambda args: list(itertools.zip_longest(*args)),
            "hasattr_static": lambda args: hasattr(args[0], args[1]),
            "type_from_runtime": kw(type_from_runtime),
            "AnnotationsContext": lambda args: ctx,
            "replace": kw(lambda args, kwargs=None: _replace(args[0], kwargs or {})),
        })
        it.globals["FunctionsSafeToCall"] = Obj("class", contains=lambda obj, options: False)
        return it, ctx, errors

    # ------------------------------------------------------------------ the def route
    @staticmethod
    def _method_module(src: str, ns: Dict[str, Any]) -> Any:
        """CPython defines the classes of `src` in a real (throw-away) module, as importing a checked module does."""
        import sys
        import types

        cached = _MODULES.get(src)
        if cached is not None:
            sys.modules[cached.__name__] = cached
            return cached
        mod = types.ModuleType("verif_signature_model_module")
        _MODULES[src] = mod
        mod.__dict__.update(ns)
        sys.modules[mod.__name__] = mod
        exec(compile(src, "<signature model>", "exec"), mod.__dict__)
        return mod

    @staticmethod
    def _locate(tree: ast.Module) -> Tuple[List[str], ast.AST]:
        path: List[str] = []
        node: ast.AST = tree.body[0]
        while isinstance(node, ast.ClassDef):
            path.append(node.name)
            node = node.body[0]
        return path, node

    def via_def(self, src: str, ns: Dict[str, Any]) -> Any:
        it, ctx, errors = self._sig_session(ns)
        path, node = self._locate(ast.parse(src))
        enclosing = None
        if path:
            obj: Any = self._method_module(src, ns)
            for name in path:
                obj = getattr(obj, name)
            enclosing = it.funcs["TypedValue"]([obj])  # what the visitor passes: TypedValue(the class being defined)

        def value_of_annotation(n: Any, allow_unpack: bool = False, **k: Any) -> Any:
            fn = self.module_defs["_type_from_ast"]
            return it.call_def(fn, [n, ctx], fn, {"allow_unpack": allow_unpack})

        def visit_expression(n: Any) -> Any:
            return it.funcs["KnownValue"]([ast.literal_eval(n)])

        vctx = Obj("Context", value_of_annotation=value_of_annotation, visit_expression=visit_expression, show_error=lambda *a, **k: errors.append(str(a[1]) if len(a) > 1 else "error"))
        fn = self.module_defs["compute_parameters"]
        try:
            infos = it.call_def(fn, [node, enclosing, vctx], fn)
        except Unsupported as u:
            raise AnchorError(f"compute_parameters cannot be modelled: {u}")
        except AssertionFailed as af:
            return ("crash", f"assertion {af}")
        except (PyRaise, ModelError) as e:
            return ("crash", str(e))
        params = [i._attrs["param"] for i in infos]
        returns = None
        if node.returns is not None:  # type: ignore[attr-defined]
            returns = value_of_annotation(node.returns)  # type: ignore[attr-defined]
        return params, returns, errors

    # -------------------------------------------------------------- the inspect route
    def via_inspect(self, src: str, ns: Dict[str, Any]) -> Any:
        it, ctx, errors = self._sig_session(ns)
        path, _ = self._locate(ast.parse(src))
        if path:
            obj: Any = self._method_module(src, ns)
            for name in path:
                obj = getattr(obj, name)
            f = inspect.getattr_static(obj, "f")
        else:
            env = dict(ns)
            exec(src, env)  # CPython defines the function; its inspect.Signature is the input
            f = env["f"]
        sig = inspect.signature(f)
        cache = Obj("ArgSpecCache", options=Obj("Options"), ctx=Opaque("ctx"), vnv_provider=lambda name: None, _get_generic_bases_cached=lambda c: {})
        fn = self.method_defs[("ArgSpecCache", "from_signature")]
        try:
            res = it.call_def(fn, [cache, sig], fn, {"callable_object": f, "function_object": f, "is_async": inspect.iscoroutinefunction(f)})
        except Unsupported as u:
            raise AnchorError(f"from_signature cannot be modelled: {u}")
        except AssertionFailed as af:
            return ("crash", f"assertion {af}")
        except (PyRaise, ModelError) as e:
            return ("crash", str(e))
        return list(res._attrs["parameters"]), res._attrs["return_value"], errors


def _replace(obj: Any, changes: Dict[str, Any]) -> Any:
    if not isinstance(obj, SV):
        raise AnchorError("signature model: dataclasses.replace on something other than a parameter")
    new = SV(obj._kind)
    new._attrs.update(obj._attrs)
    new._attrs.update(changes)
    return new


def describe_param(p: Any) -> str:
    a = p._attrs
    k = a["kind"]
    kind = k._attrs["name"] if isinstance(k, Obj) else str(k)
    return f"{a['name']}[{kind}]: {amod.describe(a['annotation'])}" + (f" = {amod.describe(a['default'])}" if a["default"] is not None else "")


def _is_unannotated(v: Any) -> bool:
    return isinstance(v, SV) and v._kind == "AnyValue" and str(v._attrs.get("source")) == "AnySource.unannotated"


def normalise(kind: str, ann: Any) -> Any:
    """Representations of "no annotation" that the two builders use: `Any[unannotated]`, its union with the
    default's value, and - for *args / **kwargs - tuple[Any, ...] / dict[str, Any]: all accept the same arguments."""
    if isinstance(ann, SV) and ann._kind == "MultiValuedValue" and any(_is_unannotated(x) for x in ann._attrs["vals"]):
        return "<unannotated>"
    if _is_unannotated(ann):
        return "<unannotated>"
    if kind == "VAR_POSITIONAL" and isinstance(ann, SV) and ann._kind == "GenericValue" and ann._attrs["typ"] is tuple and len(ann._attrs["args"]) == 1 and _is_unannotated(ann._attrs["args"][0]):
        return "<unannotated>"
    if kind == "VAR_KEYWORD" and isinstance(ann, SV) and ann._kind == "GenericValue" and ann._attrs["typ"] is dict and len(ann._attrs["args"]) == 2 and _is_unannotated(ann._attrs["args"][1]):
        return "<unannotated>"
    return None if ann is None else ann.key()


def param_key(p: Any) -> Any:
    a = p._attrs
    k = a["kind"]
    kind = k._attrs["name"] if isinstance(k, Obj) else str(k)
    return (a["name"], kind, None if a["default"] is None else a["default"].key(), normalise(kind, a["annotation"]))


def headers() -> Iterator[str]:
    pos = ["a", "a: int", "a=1", "a: int = 1", "a: 'int'", "a: Optional[str] = None"]
    second = ["", "b", "b: str = 'x'"]
    star = ["", "*args", "*args: int", "*"]
    kwonly = ["", "k", "k: str", "k: str = 'x'", "k=2"]
    dstar = ["", "**kw", "**kw: int"]
    rets = ["", " -> int", " -> Optional[str]", " -> None"]
    for p, s, st, ko, ds in itertools.product(pos, second, star, kwonly, dstar):
        if st == "*" and not ko:
            continue
        if ko and not st:
            continue
        if "=" in p and s == "b":
            continue  # a parameter without a default after one with a default: SyntaxError
        parts = [x for x in (p, s, st, ko, ds) if x]
        yield ", ".join(parts)
    yield from SPECIAL_HEADERS


SPECIAL_HEADERS = ("a, /, b", "a: int, /, b: str = 'x', *, k: int", "__a, b", "__a: int, __b: str = 'x'", "a, __b", "")


METHOD_DEFINITIONS = (
    "class C:\n    def f(self): pass",
    "class C:\n    def f(self, a: int, b: str = 'x') -> int: pass",
    "class C:\n    def f(this, *args: int, **kw: str): pass",
    "class Outer:\n    class Inner:\n        def f(self, a): pass",
    "class Outer:\n    class Inner:\n        def f(self, a: int, *, k: str = 'x') -> None: pass",
    "class A:\n    class B:\n        class C:\n            def f(self): pass",
    "class C:\n    def f(self: 'C', a): pass",
)


def definitions(stride: int = 1) -> Iterator[str]:
    yield from METHOD_DEFINITIONS
    rets = ["", " -> int", " -> Optional[str]", " -> None"]
    for i, h in enumerate(headers()):
        if stride > 1 and i % stride and h not in SPECIAL_HEADERS:
            continue
        r = rets[i % len(rets)]
        yield f"def f({h}){r}: pass"
        if i % 7 == 0:
            yield f"async def f({h}){r}: pass"
