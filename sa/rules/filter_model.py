"""Finite model of the diagnostic filter (C11, C16): BaseNodeVisitor.show_error,
has_file_level_ignore, _lines, is_enabled, get_unused_ignores and
analysis_lib.get_indentation are interpreted from their AST on small files made
of code lines and ignore comments, for every sequence of raw diagnostics and
every set of enabled codes, and compared with the documented meaning of ignore
comments and of enabling."""

from __future__ import annotations

import ast
import collections
import re
from typing import Any, Dict, FrozenSet, List, Optional, Sequence, Set, Tuple

from ..minterp import AssertionFailed, Interp, ModelError, Obj, Opaque, PyRaise, Sym, Unsupported
from ..model import AnchorError, Program

IC = "# static analysis: ignore"
CODES = ("A", "B")

# line kinds of the domain
LINE_KINDS: Dict[str, str] = {
    "code": "x = f()",
    "code+bare": f"x = f()  {IC}",
    "code+A": f"x = f()  {IC}[A]",
    "code+B": f"x = f()  {IC}[B]",
    "code+B+A": f"x = f()  {IC}[B]  {IC}[A]",
    "own-bare": IC,
    "own-A": f"{IC}[A]",
    "own-A-indented": f"    {IC}[A]",
    "own-B": f"{IC}[B]",
    "comment": "# a comment",
    "indented-code": "    y = g()",
    "blank": "",
    "formfeed": "\x0c",  # a form feed is white space for the parser, not the end of a line
    # the text of an ignore comment inside a string literal is not a comment
    "str-bare": f'x = "{IC}"',
    "str-A+code": f"x = '{IC}[A]'; y = f()",
}


# ------------------------------------------------------------------ reference
def file_level(lines: Sequence[str], code: str) -> Optional[int]:
    """Index of the leading comment line that ignores `code` for the whole file."""
    for i, line in enumerate(lines):
        if not line.startswith("#"):
            return None
        if line.strip() in (IC, f"{IC}[{code}]"):
            return i
    return None


def comment_of(line: str) -> str:
    """The comment of a line of the domain (one-line string literals only): from the first `#` outside quotes."""
    quote = None
    for i, ch in enumerate(line):
        if quote is None:
            if ch in "\"'":
                quote = ch
            elif ch == "#":
                return line[i:]
        elif ch == quote:
            quote = None
    return ""


def suppressing_line(lines: Sequence[str], lineno: int, code: str) -> Optional[int]:
    """0-based index of the comment line that suppresses a diagnostic of `code` on
    1-based line `lineno`: a file-level comment, a comment on the line itself (bare, or
    naming the code, anywhere on the line), or a comment alone on a line directly above
    (several such lines may be stacked, one per code)."""
    fl = file_level(lines, code)
    if fl is not None:
        return fl
    this = comment_of(lines[lineno - 1])
    if re.search(re.escape(IC) + r"(?!\[)", this) or f"{IC}[{code}]" in this:
        return lineno - 1
    # own-line ignore comments directly above the line: a run of `ignore[...]` comment
    # lines (one per code) and/or a bare comment
    i = lineno - 2
    while i >= 0:
        prev = lines[i].strip()
        if prev in (IC, f"{IC}[{code}]"):
            return i
        if not prev.startswith(IC + "["):
            break
        i -= 1
    return None


def reference(lines: Sequence[str], diags: Sequence[Tuple[int, str]], enabled: FrozenSet[str]) -> Tuple[List[Tuple[int, str]], Set[int]]:
    reported: List[Tuple[int, str]] = []
    used: Set[int] = set()
    seen = set()
    for lineno, code in diags:
        s = suppressing_line(lines, lineno, code)
        if s is not None:
            used.add(s)
            continue
        if (lineno, code) in seen:
            continue
        seen.add((lineno, code))
        if code in enabled:
            reported.append((lineno, code))
    return reported, used


def _tokenizer_comments(contents: str, nlines: int) -> List[str]:
    import io
    import tokenize

    out = [""] * nlines
    try:
        for tok in tokenize.generate_tokens(io.StringIO(contents).readline):
            if tok.type == tokenize.COMMENT and tok.start[0] <= nlines:
                out[tok.start[0] - 1] = tok.string
    except (tokenize.TokenError, SyntaxError):
        return [l[l.index("#"):] if "#" in l else "" for l in contents.split("\n")[:nlines]]
    return out


def _wrap(m: Optional["re.Match[str]"]) -> Any:
    """A regex match as a model object (None stays None)."""
    if m is None:
        return None
    return Obj("Match", group=lambda *a: m.group(*a), groups=lambda: m.groups(), start=lambda *a: m.start(*a), end=lambda *a: m.end(*a))


def norm_call(call: ast.Call) -> str:
    f = call.func
    return f"{f.value.id}.{f.attr}" if isinstance(f, ast.Attribute) and isinstance(f.value, ast.Name) else getattr(f, "id", "")


# ----------------------------------------------------------------- extraction
class FilterModel:
    def __init__(self, prog: Program) -> None:
        self.prog = prog
        f = lambda q: prog.func("node_visitor", q)  # noqa: E731
        self.show_error = f("BaseNodeVisitor.show_error")
        self.method_defs = {
            ("Visitor", "has_file_level_ignore"): f("BaseNodeVisitor.has_file_level_ignore"),
            ("Visitor", "_lines"): f("BaseNodeVisitor._lines"),
            ("Visitor", "is_enabled"): f("BaseNodeVisitor.is_enabled"),
            ("Visitor", "get_unused_ignores"): f("BaseNodeVisitor.get_unused_ignores"),
            ("Visitor", "get_description_for_error_code"): f("BaseNodeVisitor.get_description_for_error_code"),
        }
        # helpers of the module that _lines uses (a line splitter and its pattern), whatever they are called
        self.module_defs: Dict[str, Any] = {}
        self.module_consts: Dict[str, Any] = {}
        nv = prog.module("node_visitor")
        called = {x.func.id for x in ast.walk(self.method_defs[("Visitor", "_lines")]) if isinstance(x, ast.Call) and isinstance(x.func, ast.Name)}
        for st in nv.tree.body:
            if isinstance(st, ast.FunctionDef) and st.name in called:
                self.module_defs[st.name] = st
        wanted = {x.id for fn in self.module_defs.values() for x in ast.walk(fn) if isinstance(x, ast.Name)}
        for st in nv.tree.body:
            if isinstance(st, ast.Assign) and len(st.targets) == 1 and isinstance(st.targets[0], ast.Name) and st.targets[0].id in wanted:
                v = st.value
                if isinstance(v, ast.Call) and norm_call(v) == "re.compile" and v.args and all(isinstance(a, ast.Constant) for a in v.args):
                    self.module_consts[st.targets[0].id] = re.compile(*[a.value for a in v.args])  # type: ignore[attr-defined]
        ic = prog.module_assign("node_visitor", "IGNORE_COMMENT")
        if not (isinstance(ic, ast.Constant) and ic.value == IC):
            raise AnchorError("node_visitor.IGNORE_COMMENT is not the documented comment")
        gi = prog.func("analysis_lib", "get_indentation")
        self.get_indentation = gi
        ctx_lines = None
        for st in prog.cls("BaseNodeVisitor").node.body:
            if isinstance(st, ast.AnnAssign) and isinstance(st.target, ast.Name) and st.target.id == "CONTEXT_LINES" and isinstance(st.value, ast.Constant):
                ctx_lines = st.value.value
        if ctx_lines is None:
            raise AnchorError("BaseNodeVisitor.CONTEXT_LINES not found")
        self.context_lines = ctx_lines

    def run(self, lines: Sequence[str], diags: Sequence[Tuple[int, str]], enabled: FrozenSet[str], add_ignores: bool = False):
        """-> (reported [(lineno, code)], used_ignores set, replacements, unused ignore line indices)"""
        codes = {c: Obj("ErrorCode", name=c) for c in CODES}
        changes: Dict[str, List[Any]] = collections.defaultdict(list)
        vis = Obj(
            "Visitor",
            caught_errors=None,
            filename="m.py",
            contents="\n".join(lines) + "\n",
            used_ignores=set(),
            seen_errors=set(),
            all_failures=[],
            add_ignores=add_ignores,
            fail_after_first=False,
            had_failure=False,
            settings={codes[c]: (c in enabled) for c in CODES},
            logger=Opaque("logger"),
            CONTEXT_LINES=self.context_lines,
            _changes_for_fixer=changes,
            # which part of each line is a comment is CPython's tokenizer's verdict (not pyanalyze's code): the real
            # method asks tokenize too; the reference of this model uses its own scanner (comment_of)
            _comments=lambda: _tokenizer_comments("\n".join(lines) + "\n", len(lines)),
        )
        interp_holder: List[Interp] = []

        def get_indentation(line: Any) -> Any:
            return interp_holder[0].call_def(self.get_indentation, [line], self.get_indentation)

        globals_ = {
            "__concrete_fstrings__": True,
            "IGNORE_COMMENT": IC,
            "re": Obj("re", search=lambda p, s: _wrap(re.search(p, s)), match=lambda p, s: _wrap(re.match(p, s)), escape=lambda s: re.escape(s)),
            "analysis_lib": Obj("analysis_lib", get_indentation=get_indentation),
        }
        funcs = {
            "Replacement": lambda args: Obj("Replacement", linenos_to_delete=args[0], lines_to_add=args[1] if len(args) > 1 else None, error_str=args[2] if len(args) > 2 else None),
            "VisitorError": lambda args: Obj("VisitorError"),
        }
        globals_.update(self.module_consts)
        it = Interp({}, {}, (), funcs, None, self.method_defs, self.module_defs, globals_)
        interp_holder.append(it)
        reported: List[Tuple[int, str]] = []
        try:
            for lineno, code in diags:
                node = Obj("Node", lineno=lineno, col_offset=0)
                # the same (line, code) reported twice is the same AST node twice
                node = self._nodes.setdefault((lineno, code), node) if hasattr(self, "_nodes") else node
                res = it.call_def(self.show_error, [vis, node, Opaque("message"), codes[code]], self.show_error)
                if res is not None:
                    reported.append((lineno, code))
            unused = it.call_def(self.method_defs[("Visitor", "get_unused_ignores")], [vis], self.show_error)
        except Unsupported as u:
            raise AnchorError(f"show_error cannot be modelled: {u}")
        except AssertionFailed as af:
            raise AnchorError(f"show_error: assertion reached: {af}")
        except (PyRaise, ModelError) as e:
            return ("crash", str(e)), set(), [], []
        reps = [(r.get("linenos_to_delete", None), r.get("lines_to_add", None)) for r in changes.get("m.py", [])]
        return reported, set(vis.get("used_ignores", None)), reps, [i for i, _ in unused]

    def run_fresh(self, lines, diags, enabled, add_ignores=False):
        self._nodes: Dict[Tuple[int, str], Obj] = {}
        return self.run(lines, diags, enabled, add_ignores)
