"""C12 - the checker is total: exhaustive dispatch, grammar coverage, catch-all,
registered error codes."""

from __future__ import annotations

import ast
from typing import Dict, List, Optional, Set, Tuple

from ..adi import BOOL_UNIVERSE, Interp, UnarySummary, Universe, class_universe, enum_universe
from ..model import AnchorError, Program, dotted, last_attr, norm, parent, walk_no_nested
from ..report import Check, guard
from .common import INTERNAL_VALUE_KINDS, SINGLETONS, calls_in, returns_of, value_universe

# --------------------------------------------------------------------- R12.1


def failing_default_sites(prog: Program) -> List[Tuple[str, str, ast.FunctionDef, ast.AST, str]]:
    """(module, qualname, func, node, kind) for assert False / assert_never /
    raise NotImplementedError|AssertionError that sit inside a conditional arm
    or at the end of a function that has other statements."""
    out = []
    for m, q, fn in prog.iter_functions():
        for n in walk_no_nested(fn):
            kind = None
            if isinstance(n, ast.Assert) and isinstance(n.test, ast.Constant) and n.test.value is False:
                kind = "assert False"
            elif isinstance(n, ast.Expr) and isinstance(n.value, ast.Call) and last_attr(n.value) == "assert_never":
                kind = "assert_never"
            elif isinstance(n, ast.Raise) and n.exc is not None:
                nm = last_attr(n.exc) if isinstance(n.exc, ast.Call) else dotted(n.exc)
                if nm in ("NotImplementedError", "AssertionError"):
                    kind = f"raise {nm}"
            if kind is None:
                continue
            body = [s for s in fn.body if not (isinstance(s, ast.Expr) and isinstance(s.value, ast.Constant))]
            if len(body) == 1 and body[0] is n:
                continue  # abstract method / protocol stub: the whole body is the raise
            out.append((m, q, fn, n, kind))
    return sorted(out, key=lambda t: (t[0], t[1], t[3].lineno))


# site classification.  Key: (module, qualname, subject key).  Value: domain spec.
#   enum:<Enum>            all members of the enum
#   values                 bindable Value classes (INTERNAL_VALUE_KINDS excluded)
#   classes:<Root>         all strict subclasses of Root
#   union:<a>|<b>|...      explicit atoms (class names, None, singleton names)
SITE_DOMAINS: Dict[Tuple[str, str, str], Tuple[str, str]] = {
    ("boolability", "_get_boolability_no_mvv", "value"): (
        "values-no-mvv",
        "every bindable value kind; unions are split by get_boolability before the call",
    ),
    ("signature", "SigParameter.to_argument", "self.kind"): ("enum:ParameterKind", ""),
    ("signature", "Signature.bind_arguments", "param.kind"): ("enum:ParameterKind", ""),
    ("signature", "Signature.can_assign", "my_param.kind"): ("enum:ParameterKind", ""),
    ("signature", "Signature.can_assign", "param.kind"): ("enum:ParameterKind", ""),
    ("stacked_scopes", "Constraint.apply_to_value", "self.constraint_type"): ("enum:ConstraintType", ""),
    ("typevar", "solve", "bound"): ("classes:Bound", ""),
    ("value", "KnownValue.can_overlap", "mode"): ("enum:OverlapMode", ""),
    ("signature", "make_bound_method", "argspec"): ("alias:MaybeSignature", "members of the MaybeSignature union alias"),
    ("signature", "preprocess_args", "label"): ("alias-elt:Argument", "second component of the Argument tuple alias"),
}

# sites that are not a dispatch over a closed finite domain: listed, not decided
NOT_DISPATCH: Dict[Tuple[str, str], str] = {
    ("signature", "Signature.check_call_with_bound_args"): "invariant on a decomposed-union position set by the binder (data dependent)",
    ("yield_checker", "YieldInfo.target_and_value"): "shape of the statement around a yield (open AST domain)",
    ("yield_checker", "VarnameGenerator._ensure_unique"): "after an infinite itertools.count loop",
    ("yield_checker", "YieldChecker.show_unnecessary_yield_error"): "precondition on a sequence length",
    ("suggested_type", "get_shared_type"): "object is in every MRO (runtime invariant)",
    ("typeshed", "TypeshedFinder._get_attribute_from_info"): "open domain: typeshed_client info kinds",
    ("typeshed", "TypeshedFinder._get_value_from_child_info"): "open domain: stub AST statement kinds",
    ("typeshed", "TypeshedFinder._get_bases_from_info"): "open domain: stub AST statement kinds",
    ("name_check_visitor", "NameCheckVisitor._compute_return_type"): "identity tests against singletons of the return-set protocol (data dependent)",
    ("name_check_visitor", "NameCheckVisitor._visit_single_formatted_value"): "f-string conversion code, range fixed by the Python grammar (-1, 97, 114, 115); raise is inside a try that is caught by the visitor catch-all",
    ("annotations", "_Visitor.generic_visit"): "decided by R12.2 (grammar coverage)",
    ("patma", "PatmaVisitor.generic_visit"): "decided by R12.2 (grammar coverage)",
    ("format_strings", "ConversionSpecifier.accept_no_mvv"): "decided by C17 R17.1 (conversion alphabet)",
    ("boolability", "_get_boolability_no_mvv#inconsistent"): "inner asserts on _get_type_boolability results (data dependent)",
}


def _union_alias_atoms(prog: Program, module: str, alias: str, elt: Optional[int] = None) -> List[str]:
    expr = prog.module_assign(module, alias)
    if elt is not None:
        if not (isinstance(expr, ast.Subscript) and isinstance(expr.slice, ast.Tuple)):
            raise AnchorError(f"{module}.{alias} is not a tuple[...] alias")
        expr = expr.slice.elts[elt]
    if not (isinstance(expr, ast.Subscript) and norm(expr.value) in ("Union", "typing.Union", "Optional")):
        raise AnchorError(f"{module}.{alias} is not a Union alias: {norm(expr)}")
    elts = expr.slice.elts if isinstance(expr.slice, ast.Tuple) else [expr.slice]
    atoms = []
    for e in elts:
        t = norm(e)
        if t.startswith("Literal["):
            # Literal[ARGS] etc: singleton names
            inner = e.slice  # type: ignore[attr-defined]
            for x in inner.elts if isinstance(inner, ast.Tuple) else [inner]:
                atoms.append(norm(x))
        else:
            atoms.append(t)
    if norm(expr.value) == "Optional":
        atoms.append("None")
    return atoms


def _domain(prog: Program, module: str, spec: str) -> Universe:
    if spec.startswith("enum:"):
        return enum_universe(prog, spec[5:])
    if spec == "values-no-mvv":
        return value_universe(prog, extra_exclude=["MultiValuedValue", "UninitializedValue"])
    if spec.startswith("classes:"):
        root = spec[8:]
        return class_universe(prog, root, exclude=[root])
    if spec.startswith("alias:"):
        return Universe("class", frozenset(_union_alias_atoms(prog, module, spec[6:])), "")
    if spec.startswith("alias-elt:"):
        return Universe("class", frozenset(_union_alias_atoms(prog, module, spec[10:], 1)), "")
    raise AnchorError(f"bad domain spec {spec}")


class _SingletonAwareInterp(Interp):
    """For union-alias domains whose atoms include None and named singletons
    (ARGS, KWARGS, ELLIPSIS): `x is ATOM` narrows exactly."""

    def _cmp_atom(self, a, b, env):  # type: ignore[override]
        k = self.key_of(a)
        if k is not None and k in env and k in self.universes and self.universes[k].kind == "class":
            name = None
            if isinstance(b, ast.Constant) and b.value is None:
                name = "None"
            elif isinstance(b, ast.Name):
                name = b.id
            if name is not None and name in self.universes[k].atoms and name not in self.prog.classes:
                sel = frozenset({name})
                return self._narrow(env, k, env[k] & sel), self._narrow(env, k, env[k] - sel)
        return super()._cmp_atom(a, b, env)


def reaching_default(prog: Program, module: str, fn: ast.FunctionDef, site: ast.AST, key: str, uni: Universe) -> Set[str]:
    reached: Set[str] = set()

    def on_stmt(node: ast.AST, env: Dict[str, frozenset]) -> None:
        if node is site:
            reached.update(env.get(key, uni.atoms))

    summaries = {}
    cu = None
    if uni.kind == "class" and uni.root == "Value":
        cu = uni
        full = value_universe(prog)
        rk = UnarySummary(prog, prog.func("value", "replace_known_sequence_value"), full, SINGLETONS)
        summaries["replace_known_sequence_value"] = rk.as_summary()
    it = _SingletonAwareInterp(
        prog,
        fn,
        universes={key: uni},
        class_universe=value_universe(prog) if cu is not None else (uni if uni.kind == "class" else None),
        singletons=SINGLETONS,
        summaries=summaries,
        on_stmt=on_stmt,
    )
    it.run({key: uni.atoms})
    return reached


def _test_keys(test: ast.AST) -> List[str]:
    out: List[str] = []
    if isinstance(test, ast.BoolOp):
        for v in test.values:
            out += _test_keys(v)
    elif isinstance(test, ast.UnaryOp) and isinstance(test.op, ast.Not):
        out += _test_keys(test.operand)
    elif isinstance(test, ast.Call) and last_attr(test) == "isinstance" and len(test.args) == 2:
        k = dotted(test.args[0])
        if k:
            out.append(k)
    elif isinstance(test, ast.Compare) and len(test.ops) == 1 and isinstance(test.ops[0], (ast.Is, ast.Eq, ast.IsNot, ast.NotEq, ast.In)):
        k = dotted(test.left)
        if k:
            out.append(k)
    return out


def chain_subject(site: ast.AST) -> Optional[str]:
    """The expression dispatched on by the if/elif chain whose final `else`
    holds the failing default."""
    p = parent(site)
    if not (isinstance(p, ast.If) and any(site is s for s in p.orelse)):
        return None
    counts: Dict[str, int] = {}
    cur: ast.AST = p
    while isinstance(cur, ast.If):
        for k in _test_keys(cur.test):
            counts[k] = counts.get(k, 0) + 1
        nxt = parent(cur)
        if isinstance(nxt, ast.If) and len(nxt.orelse) == 1 and nxt.orelse[0] is cur:
            cur = nxt
        else:
            break
    if not counts:
        return None
    return max(sorted(counts), key=lambda k: counts[k])


def r12_1(prog: Program, chk: Check) -> None:
    chk.rule(
        "R12.1",
        "failing defaults of dispatch chains are unreachable for every element of the dispatched domain "
        "(abstract dispatch over enum members / class hierarchy / union alias)",
        floor=30,
    )
    sites = failing_default_sites(prog)
    chk.analysed["failing_default_sites"] = len(sites)
    classified = 0
    unclassified: List[str] = []
    per_fn_count: Dict[Tuple[str, str], int] = {}
    found_specs: Set[Tuple[str, str, str]] = set()
    for m, q, fn, node, kind in sites:
        subject = chain_subject(node)
        spec = SITE_DOMAINS.get((m, q, subject or ""))
        if spec is None:
            if (m, q) not in NOT_DISPATCH and not any(k[0] == m and k[1] == q for k in SITE_DOMAINS):
                unclassified.append(f"{m}::{q}:{node.lineno} ({kind}, subject {subject})")
            continue
        dom, _ = spec
        k = subject
        assert k is not None
        found_specs.add((m, q, k))
        per_fn_count[(m, q)] = per_fn_count.get((m, q), 0) + 1
        uni = _domain(prog, m, dom)
        reached = reaching_default(prog, m, fn, node, k, uni)
        classified += 1
        for atom in sorted(set(uni.atoms) | reached):
            chk.ob(
                "R12.1",
                f"{m}::{q}::default({k})::uncovered={atom}",
                atom not in reached,
                prog.site(m, node),
                f"{atom} (domain {dom} of `{k}`) reaches `{kind}`: the checker raises -> internal_error",
            )
    for key3, (dom, _) in SITE_DOMAINS.items():
        m, q, k = key3
        fn = prog.func(m, q)  # the dispatching function itself must exist (exit 2 otherwise)
        if key3 not in found_specs:
            # the chain has no failing default any more (e.g. it now ends in a
            # graceful fallback): nothing can raise, the obligation is discharged
            chk.ob(
                "R12.1",
                f"{m}::{q}::default({k})::no-failing-default",
                True,
                prog.site(m, fn),
                f"dispatch over `{k}` has no failing default arm",
                nontrivial=False,
            )
        # falling off the end of a dispatcher that promises a value returns None
        ret = norm(fn.returns) if fn.returns is not None else ""
        is_gen = any(isinstance(n, (ast.Yield, ast.YieldFrom)) for n in walk_no_nested(fn))
        if ret and "None" not in ret and "Optional" not in ret and not is_gen and "." not in k:
            uni = _domain(prog, m, dom)
            summaries = {}
            if uni.kind == "class" and uni.root == "Value":
                rk = UnarySummary(prog, prog.func("value", "replace_known_sequence_value"), value_universe(prog), SINGLETONS)
                summaries["replace_known_sequence_value"] = rk.as_summary()
            it = _SingletonAwareInterp(
                prog,
                fn,
                universes={k: uni},
                class_universe=value_universe(prog) if uni.root == "Value" else (uni if uni.kind == "class" else None),
                singletons=SINGLETONS,
                summaries=summaries,
            )
            it.run({k: uni.atoms})
            fell = sorted(it.fallthrough.get(k, uni.atoms)) if it.fallthrough is not None else []
            chk.ob(
                "R12.1",
                f"{m}::{q}::falls-off-end({k})",
                not fell,
                prog.site(m, fn),
                f"dispatch over `{k}` can fall off the end of the function (implicit None instead of {ret}) for {fell}",
            )
    chk.analysed["dispatch_sites_checked"] = classified
    chk.analysed["sites_not_dispatch"] = {f"{m}::{q}": r for (m, q), r in NOT_DISPATCH.items()}
    chk.analysed["sites_unclassified"] = unclassified
    if unclassified:
        chk.notes.append(
            "failing-default sites without a domain classification (not decided, listed only): " + "; ".join(unclassified)
        )


# --------------------------------------------------------------------- R12.2
DEPRECATED_AST = {"Num", "Str", "Bytes", "NameConstant", "Ellipsis", "Index", "ExtSlice", "Suite", "Param", "AugLoad", "AugStore"}


def grammar(category: str) -> List[str]:
    base = getattr(ast, category)
    return sorted(c.__name__ for c in base.__subclasses__() if c.__name__ not in DEPRECATED_AST)


def visitor_methods(prog: Program, cname: str) -> Set[str]:
    out: Set[str] = set()
    for ci in prog.mro(cname):
        for mname in ci.methods:
            if mname.startswith("visit_"):
                out.add(mname[6:])
    return out


def generic_visit_raises(prog: Program, cname: str) -> Optional[ast.FunctionDef]:
    f = prog.find_method(cname, "generic_visit")
    if f is None:
        return None
    fn = f[1]
    stmts = [s for s in fn.body if not (isinstance(s, ast.Expr) and isinstance(s.value, ast.Constant))]
    if stmts and isinstance(stmts[0], ast.Raise):
        return fn
    return None


# which grammar category a raising visitor is applied to, and from where
RAISING_VISITOR_CATEGORY = {
    "_Visitor": ("expr", "annotation expressions: any expression may appear in a quoted annotation / stub"),
    "PatmaVisitor": ("pattern", "match patterns"),
}


def r12_2(prog: Program, chk: Check) -> None:
    chk.rule(
        "R12.2",
        "a NodeVisitor whose generic_visit raises covers every node class of its grammar category; "
        "the main visitor has a visit_* for every expr/stmt kind",
        floor=30,
    )
    visitors = [c for c in prog.classes if prog.is_subclass(c, "NodeVisitor") and c != "NodeVisitor"]
    raising = []
    for c in sorted(visitors):
        ci = prog.cls(c)
        if ci.module.name in ("tests",):
            continue
        fn = generic_visit_raises(prog, c)
        if fn is None:
            continue
        raising.append(c)
        if c not in RAISING_VISITOR_CATEGORY:
            chk.notes.append(f"raising visitor {c} has no grammar category classification (not decided)")
            continue
        cat, _ = RAISING_VISITOR_CATEGORY[c]
        have = visitor_methods(prog, c)
        for kind in grammar(cat):
            chk.ob(
                "R12.2",
                f"{ci.module.name}::{c}::uncovered={kind}",
                kind in have,
                prog.site(ci.module, fn),
                f"{c}.generic_visit raises and there is no visit_{kind}: an ast.{kind} node makes the checker raise -> internal_error",
            )
    chk.analysed["raising_visitors"] = raising
    for c in RAISING_VISITOR_CATEGORY:
        if c not in raising:
            # not raising any more (e.g. repaired): still require it to exist
            prog.cls(c)
    # main visitor: every expr / stmt kind typed
    have = visitor_methods(prog, "NameCheckVisitor")
    # (statement kinds without a visit_* are visited child by child, which is a
    # scoping question decided under C09 R09.b, not a typing one)
    for cat in ("expr",):
        for kind in grammar(cat):
            chk.ob(
                "R12.2",
                f"name_check_visitor::NameCheckVisitor::uncovered={kind}",
                kind in have,
                "pyanalyze/name_check_visitor.py",
                f"NameCheckVisitor has no visit_{kind}: the node is typed VOID by generic_visit",
            )


# --------------------------------------------------------------------- R12.3
def _has_catch_all(fn: ast.FunctionDef, *, need_finally_pop: bool) -> Tuple[bool, str]:
    for n in walk_no_nested(fn):
        if not isinstance(n, ast.Try):
            continue
        reraise = False
        catch = False
        for h in n.handlers:
            t = norm(h.type) if h.type is not None else ""
            if t.endswith("VisitorError") and any(isinstance(s, ast.Raise) and s.exc is None for s in h.body):
                reraise = True
            if t in ("Exception", "BaseException"):
                shows = [c for c in calls_in(ast.Module(body=h.body, type_ignores=[]), "show_error")]
                if any("internal_error" in norm(c) for c in shows) and not any(isinstance(s, ast.Raise) for s in h.body):
                    catch = True
        if not (reraise and catch):
            continue
        if need_finally_pop:
            pops = [c for c in calls_in(ast.Module(body=n.finalbody, type_ignores=[]), "pop")]
            if not pops:
                return False, "catch-all found but the context-stack pop is not in `finally`"
        return True, ""
    return False, "no try/except VisitorError: raise / except Exception: show_error(internal_error)"


def r12_3(prog: Program, chk: Check) -> None:
    chk.rule("R12.3", "catch-all present around node dispatch and around check()", floor=4)
    v = prog.func("name_check_visitor", "NameCheckVisitor.visit")
    ok, why = _has_catch_all(v, need_finally_pop=True)
    chk.ob("R12.3", "name_check_visitor::NameCheckVisitor.visit::catch-all", ok, prog.site("name_check_visitor", v), why)
    # the dispatch call is inside that try
    method_calls = [
        c
        for c in calls_in(v, "method")
        if any(isinstance(a, ast.Try) for a in _ancestors_within(c, v))
    ]
    all_method_calls = calls_in(v, "method")
    chk.ob(
        "R12.3",
        "name_check_visitor::NameCheckVisitor.visit::dispatch-inside-try",
        bool(all_method_calls) and len(method_calls) == len(all_method_calls),
        prog.site("name_check_visitor", v),
        "every dispatch `method(node)` must be inside the try that has the catch-all",
    )
    c = prog.func("name_check_visitor", "NameCheckVisitor.check")
    ok, why = _has_catch_all(c, need_finally_pop=False)
    chk.ob("R12.3", "name_check_visitor::NameCheckVisitor.check::catch-all", ok, prog.site("name_check_visitor", c), why)
    visits = [x for x in calls_in(c, "visit")]
    inside = [x for x in visits if any(isinstance(a, ast.Try) for a in _ancestors_within(x, c))]
    chk.ob(
        "R12.3",
        "name_check_visitor::NameCheckVisitor.check::visits-inside-try",
        len(visits) >= 2 and len(inside) == len(visits),
        prog.site("name_check_visitor", c),
        "both passes self.visit(self.tree) must be inside the try with the catch-all",
    )


def _ancestors_within(node: ast.AST, stop: ast.AST) -> List[ast.AST]:
    out = []
    p = parent(node)
    while p is not None and p is not stop:
        out.append(p)
        p = parent(p)
    return out


# --------------------------------------------------------------------- R12.4
def registered_codes(prog: Program) -> Set[str]:
    expr = prog.module_assign("error_code", "ErrorCode")
    if not (isinstance(expr, ast.Call) and last_attr(expr) == "ErrorRegistry" and expr.args):
        raise AnchorError("ErrorCode is not ErrorRegistry([...])")
    lst = expr.args[0]
    if not isinstance(lst, (ast.List, ast.Tuple)):
        raise AnchorError("ErrorRegistry argument is not a list literal")
    names: Set[str] = set()
    for e in lst.elts:
        if isinstance(e, ast.Call) and last_attr(e) == "Error" and e.args and isinstance(e.args[0], ast.Constant):
            names.add(e.args[0].value)
        else:
            raise AnchorError(f"unrecognised registry entry {norm(e)[:60]}")
    return names


REGISTRY_API = {"register", "errors"}


def r12_4(prog: Program, chk: Check) -> None:
    chk.rule("R12.4", "every ErrorCode.<name> reference names a registered code", floor=60)
    codes = registered_codes(prog)
    chk.analysed["registered_codes"] = len(codes)
    refs: Dict[str, List[str]] = {}
    for mod in prog.modules.values():
        for n in ast.walk(mod.tree):
            if isinstance(n, ast.Attribute) and isinstance(n.value, ast.Name) and n.value.id == "ErrorCode":
                refs.setdefault(n.attr, []).append(prog.site(mod, n))
            elif isinstance(n, ast.Attribute) and isinstance(n.value, ast.Attribute) and n.value.attr == "ErrorCode":
                refs.setdefault(n.attr, []).append(prog.site(mod, n))
    chk.analysed["error_code_refs"] = sum(len(v) for v in refs.values())
    for name in sorted(refs):
        if name in REGISTRY_API:
            continue
        chk.ob(
            "R12.4",
            f"error_code::ErrorCode::ref={name}",
            name in codes,
            refs[name][0],
            f"ErrorCode.{name} is referenced ({len(refs[name])} sites, first {refs[name][0]}) but not registered: AttributeError at run time",
        )
    # duplicate names in the registry silently shadow
    expr = prog.module_assign("error_code", "ErrorCode")
    seen: Set[str] = set()
    dups = []
    for e in expr.args[0].elts:  # type: ignore[attr-defined]
        nm = e.args[0].value
        if nm in seen:
            dups.append(nm)
        seen.add(nm)
    chk.ob("R12.4", "error_code::ErrorCode::unique-names", not dups, "pyanalyze/error_code.py", f"duplicate registry names {dups}")
    # every show_error-family call passes error_code as ErrorCode.X / a name / None
    bad = []
    n_calls = 0
    for mod in prog.modules.values():
        for c in calls_in(mod.tree):
            if last_attr(c) not in ("show_error", "_show_error_if_checking", "show_caught_errors"):
                continue
            ec = None
            for k in c.keywords:
                if k.arg == "error_code":
                    ec = k.value
            if ec is None:
                continue
            n_calls += 1
            if isinstance(ec, ast.Constant) and ec.value is not None:
                bad.append(prog.site(mod, c))
    chk.analysed["show_error_calls_with_code"] = n_calls
    chk.ob("R12.4", "package::show_error::error_code-not-literal", not bad, bad[0] if bad else "pyanalyze", f"show_error called with a literal instead of a registry member at {bad}")


def run(prog: Program, chk: Check) -> None:
    r12_1(prog, chk)
    r12_2(prog, chk)
    r12_3(prog, chk)
    r12_4(prog, chk)


# --------------------------------------------------------------------- R12.5 / R12.6
DYN_BUILTINS = {"format", "str", "repr", "ascii", "bool", "hash", "len", "int", "float", "abs", "iter", "next", "sorted", "list", "tuple", "set", "frozenset", "dict", "sum", "min", "max", "round", "divmod", "bytes", "complex"}


def _payload_taint(fn: ast.AST) -> Set[str]:
    """Local names that hold (parts of) a KnownValue payload: assigned from an
    expression that reads `.val`, or from another tainted local."""
    tainted: Set[str] = set()
    for _ in range(4):
        changed = False
        for n in walk_no_nested(fn):
            tgt = val = None
            if isinstance(n, ast.Assign) and len(n.targets) == 1:
                tgt, val = n.targets[0], n.value
            elif isinstance(n, ast.AnnAssign) and n.value is not None:
                tgt, val = n.target, n.value
            if isinstance(tgt, ast.Name) and val is not None and tgt.id not in tainted:
                if _is_payload(val, tainted):
                    tainted.add(tgt.id)
                    changed = True
        if not changed:
            break
    return tainted


def _is_payload(e: ast.AST, tainted: Set[str]) -> bool:
    """The expression IS a payload (x.val, a tainted local, a builtin
    conversion of one), not merely something computed with one."""
    if isinstance(e, ast.Attribute) and e.attr == "val":
        return True
    if isinstance(e, ast.Name) and e.id in tainted:
        return True
    if isinstance(e, ast.Call) and isinstance(e.func, ast.Name) and e.func.id in DYN_BUILTINS and e.args:
        return _is_payload(e.args[0], tainted)
    if isinstance(e, ast.Subscript):
        return _is_payload(e.value, tainted)
    return False


def _enclosing_try(node: ast.AST, fn: ast.AST) -> Optional[ast.Try]:
    child = node
    p = parent(node)
    while p is not None and p is not fn:
        if isinstance(p, ast.Try) and p.handlers and any(child is s or any(x is child for x in ast.walk(s)) for s in p.body):
            return p
        child = p
        p = parent(p)
    return None


def _handler_is_broad(t: ast.Try) -> bool:
    for h in t.handlers:
        if h.type is None:
            return True
        names = [norm(x) for x in (h.type.elts if isinstance(h.type, ast.Tuple) else [h.type])]
        if any(n in ("Exception", "BaseException") for n in names):
            return True
    return False


def _dyn_ops(fn: ast.AST, tainted: Set[str]) -> List[Tuple[ast.AST, str]]:
    out: List[Tuple[ast.AST, str]] = []
    for n in walk_no_nested(fn):
        if isinstance(n, ast.Call):
            if isinstance(n.func, ast.Name) and n.func.id in DYN_BUILTINS and n.args and _is_payload(n.args[0], tainted):
                out.append((n, f"{n.func.id}(payload)"))
            elif _is_payload(n.func, tainted):
                out.append((n, "call payload"))
            elif isinstance(n.func, ast.Name) and n.func.id == "type" and False:
                pass
        elif isinstance(n, ast.Compare):
            ops = [n.left] + list(n.comparators)
            if any(isinstance(o, (ast.Eq, ast.NotEq, ast.Lt, ast.LtE, ast.Gt, ast.GtE, ast.In, ast.NotIn)) for o in n.ops) and any(_is_payload(o, tainted) for o in ops):
                both = sum(1 for o in ops if _is_payload(o, tainted)) >= 2
                out.append((n, "compare payload with payload" if both else "compare payload"))
        elif isinstance(n, ast.BinOp) and (_is_payload(n.left, tainted) or _is_payload(n.right, tainted)):
            out.append((n, "operator on payload"))
        elif isinstance(n, ast.UnaryOp) and not isinstance(n.op, ast.Not) and _is_payload(n.operand, tainted):
            out.append((n, "operator on payload"))
    return out


# try blocks that run user code on a payload but catch a narrow exception type today
# (module, qualname, operation) -> why it is accepted
R125_EXCEPTIONS: Dict[Tuple[str, str, str], str] = {
    ("name_check_visitor", "NameCheckVisitor.visit_Dict", "compare payload"): "dict-literal keys are tested with `key in ret`; only TypeError (unhashable key) is anticipated, a user __hash__/__eq__ raising something else is not handled (latent)",
    ("value", "KnownValue.__hash__", "hash(payload)"): "only TypeError (unhashable) is anticipated; a user __hash__ raising something else is not handled (latent, documented in the method's comment)",
}


def r12_5(prog: Program, chk: Check) -> None:
    chk.rule(
        "R12.5",
        "guarded evaluation: where a try block runs user code on a literal payload (format/str/repr/hash/len/"
        "comparison/operator/call on `.val`), its handlers catch Exception, not a narrower type",
        floor=10,
    )
    chk.rule(
        "R12.6",
        "two literal payloads are never compared with a raw ==/!=/in: the comparison goes through safe_equals/safe_in "
        "or runs under `except Exception` (a user __eq__ may raise)",
        floor=1,
    )
    n_pp = 0
    for m, q, fn in prog.iter_functions():
        tainted = _payload_taint(fn)
        ops = _dyn_ops(fn, tainted)
        seen: Dict[str, int] = {}
        for node, kind in ops:
            t = _enclosing_try(node, fn)
            if kind == "compare payload with payload":
                n_pp += 1
                ok = t is not None and _handler_is_broad(t)
                seen[kind] = seen.get(kind, 0) + 1
                chk.ob(
                    "R12.6",
                    f"{m}::{q}::payload-compare#{seen[kind]}",
                    ok,
                    prog.site(m, node),
                    f"`{norm(node)[:60]}` compares two user payloads without safe_equals / `except Exception`: a user-defined __eq__ that raises becomes an internal_error",
                )
                continue
            if t is None:
                continue  # unguarded sites rely on preceding type tests; not decided here
            broad = _handler_is_broad(t)
            key = f"{m}::{q}::guarded::{kind}"
            seen[key] = seen.get(key, 0) + 1
            exc = R125_EXCEPTIONS.get((m, q, kind))
            chk.ob(
                "R12.5",
                key + (f"#{seen[key]}" if seen[key] > 1 else ""),
                broad or exc is not None,
                prog.site(m, node),
                f"`{norm(node)[:60]}` runs user code inside a try whose handlers {[norm(h.type) if h.type else 'bare' for h in t.handlers]} do not include Exception: any other exception escapes as internal_error",
            )
    chk.analysed["payload_vs_payload_comparisons"] = n_pp
    # zero-expected-count rule: keep it from passing vacuously by checking the helper exists and is used
    se = prog.func("safe", "safe_equals")
    broad = any(isinstance(t, ast.Try) and _handler_is_broad(t) for t in walk_no_nested(se))
    uses = sum(len(calls_in(mod.tree, "safe_equals")) for mod in prog.modules.values())
    chk.ob("R12.6", "safe::safe_equals::catches-everything", broad and uses >= 3, prog.site("safe", se), f"safe_equals must swallow every exception of a user __eq__ (broad handler: {broad}, call sites: {uses})")


# ------------------------------------------------------------------- R12.7 / R12.8
# A container of the checker (a list of members, a table) indexed by a literal payload of the
# checked program: the subscript itself can raise (IndexError, KeyError, TypeError for an
# unhashable key or non-integer slice bounds, ValueError for a zero slice step).
# keyed by (module, function, the container expression): the key expression may be renamed freely
R127_EXCEPTIONS: Dict[Tuple[str, str, str], str] = {
    ("format_strings", "PercentFormatString.accept_mapping_args_no_mvv", "cs_map"): "cs_map is a defaultdict(list) and the key is established to be a str (or decoded from bytes) just before: the lookup cannot raise",
    ("implementation", "_typeddict_setitem", "self_value.items"): "else-branch of `key.val not in self_value.items`: the key was just found in that dict (its hashability is reported earlier as unhashable_key)",
    ("name_check_visitor", "NameCheckVisitor._composite_from_subscript_no_mvv", "type"): "type[...] accepts any object (types.GenericAlias does not validate its argument)",
}


def _guards_payload_subscript(node: ast.Subscript, fn: ast.AST) -> Optional[str]:
    """The idiom that makes `container[payload]` safe, or None."""
    t = _enclosing_try(node, fn)
    cont, key = norm(node.value), norm(node.slice)
    tests: List[str] = []
    child: ast.AST = node
    p = parent(node)
    while p is not None and p is not fn:
        if isinstance(p, ast.If) and any(child is s or any(x is child for x in ast.walk(s)) for s in p.body):
            tests.append(norm(p.test))
        child = p
        p = parent(p)
    is_slice = any(f"isinstance({key}, slice)" in x for x in tests)
    if t is not None:
        if _handler_is_broad(t):
            return "try / except Exception"
        caught = {norm(x) for h in t.handlers if h.type is not None for x in (h.type.elts if isinstance(h.type, ast.Tuple) else [h.type])}
        need = {"ValueError", "TypeError"} if is_slice else {"IndexError", "KeyError", "TypeError"}
        if need <= caught or (not is_slice and {"LookupError", "TypeError"} <= caught):
            return "try / except " + ", ".join(sorted(caught))
        return None
    if is_slice:
        return None  # a slice can always raise (zero step, non-integer bounds)
    if any(f"-len({cont}) <= {key} < len({cont})" in x for x in tests):
        return "range check against len()"
    if any(x == f"{key} in {cont}" or x.startswith(f"{key} in {cont} ") for x in tests):
        return "membership test"
    return None


def r12_7(prog: Program, chk: Check) -> None:
    chk.rule(
        "R12.7",
        "a container of the checker indexed by a literal payload of the checked program (`members[key.val]`) is protected: inside a try that catches Exception or every exception the "
        "subscript can raise (for a slice payload ValueError and TypeError), behind a range check against len() of the same container, or behind a membership test of the same key in "
        "the same container; three read sites are listed exceptions with their reason",
        floor=6,
    )
    seen: Dict[str, int] = {}
    for m, q, fn in prog.iter_functions():
        tainted = _payload_taint(fn)
        for n in walk_no_nested(fn):
            if not (isinstance(n, ast.Subscript) and isinstance(n.ctx, ast.Load) and _is_payload(n.slice, tainted) and not _is_payload(n.value, tainted)):
                continue
            text = norm(n)
            how = _guards_payload_subscript(n, fn)
            exc = R127_EXCEPTIONS.get((m, q, norm(n.value)))
            kinds = "slice" if any(f"isinstance({norm(n.slice)}, slice)" in norm(t.test) for t in ast.walk(fn) if isinstance(t, ast.If) and any(x is n for x in ast.walk(t))) else "index"
            key = f"{m}::{q}::payload-subscript::{text}::{kinds}"
            seen[key] = seen.get(key, 0) + 1
            chk.ob(
                "R12.7",
                key + (f"#{seen[key]}" if seen[key] > 1 else ""),
                how is not None or exc is not None,
                prog.site(m, n),
                f"`{text[:60]}` indexes a container of the checker with a literal of the checked program and nothing bounds or catches what the subscript can raise: it escapes as internal_error"
                + (f" (protected by: {how})" if how else f" (listed exception: {exc})" if exc else ""),
            )


def r12_8(prog: Program, chk: Check) -> None:
    chk.rule(
        "R12.8",
        "methods that live on the metaclass are not called through a class object that comes from the checked program: `cls.mro()` / `cls.__subclasses__()` are unbound when cls is "
        "`type` itself (use __mro__, or call under a handler that catches Exception). Expected count of unprotected calls: zero",
        floor=1,
    )
    n_sites = 0
    for m, q, fn in prog.iter_functions():
        for n in walk_no_nested(fn):
            if isinstance(n, ast.Call) and isinstance(n.func, ast.Attribute) and n.func.attr in ("mro", "__subclasses__") and not n.args and not n.keywords:
                recv = norm(n.func.value)
                if recv in ("type", "object") or recv.startswith("super("):
                    continue
                n_sites += 1
                t = _enclosing_try(n, fn)
                chk.ob(
                    "R12.8",
                    f"{m}::{q}::metaclass-method::{norm(n)[:50]}",
                    t is not None and _handler_is_broad(t),
                    prog.site(m, n),
                    f"`{norm(n)[:60]}` raises TypeError (unbound method) when the class is `type`; read `__mro__` instead or catch Exception",
                )
    chk.analysed["metaclass_method_calls"] = n_sites
    # the rule's subject exists: the shared-base computation of suggested_type reads the MRO of classes of the checked program
    gst = prog.func("suggested_type", "get_shared_type")
    reads = [x for x in ast.walk(gst) if isinstance(x, ast.Attribute) and x.attr == "__mro__"] + [x for x in ast.walk(gst) if isinstance(x, ast.Call) and isinstance(x.func, ast.Attribute) and x.func.attr == "mro"]
    chk.ob("R12.8", "suggested_type::get_shared_type::reads-the-mro", bool(reads), prog.site("suggested_type", gst), "get_shared_type must compute the shared base from the classes' MROs")


# ------------------------------------------------------------------- R12.9
def r12_9(prog: Program, chk: Check) -> None:
    import multiprocessing as mp
    import os as _os

    from .c03 import _container_chunk

    chk.rule(
        "R12.9",
        "the value API returns instead of raising, as a finite model: can_assign of the container model (C03 R03.f: KnownValue / TypedValue / MultiValuedValue with the large-union "
        "fast path / GenericValue / SequenceValue / TypedDictValue.can_assign interpreted from their AST) is applied to every (type, object) pair of its domain - among the "
        "objects unhashable ones (lists, dicts, sets), among the types unions of ten or more literals - and no application raises",
        floor=5,
    )
    procs = 2 if _os.environ.get("VERIF_SELFTEST") else min(16, _os.cpu_count() or 1)
    with mp.get_context("fork").Pool(procs) as pl:
        results = pl.map(_container_chunk, [(i, procs * 2) for i in range(procs * 2)])
    total = 0
    merged: Dict[str, Dict[str, object]] = {}
    unsupported = []
    for n, classes, uns in results:
        total += n
        unsupported += uns
        for k, c in classes.items():
            if not k.endswith("::no-crash"):
                continue
            mm = merged.setdefault(k, {"n": 0, "bad": []})
            mm["n"] += c["n"]  # type: ignore[operator]
            mm["bad"] += c["bad"]  # type: ignore[operator]
    chk.model_evaluations += total
    chk.analysed["value_api_totality"] = {"applications": total, "not_modelled": len(unsupported)}
    site = prog.site("value", prog.find_method("MultiValuedValue", "can_assign")[1])  # type: ignore[index]
    for k, c in sorted(merged.items()):
        bad = sorted(c["bad"], key=lambda d: (len(d["type"]) + len(d["object"]), repr(d)))  # type: ignore[arg-type]
        chk.ob("R12.9", f"value::can_assign-totality::{k}", not bad, site, f"{c['n']} applications, {len(bad)} raise" + (f"; smallest: {bad[0]}" if bad else ""), witness=bad[:5])
    if unsupported:
        raise AnchorError(f"{len(unsupported)} applications cannot be modelled; first: {unsupported[0]}")


# ------------------------------------------------------------------- R12.10
_LISTY_CALLS = {"list", "sorted", "dict", "set", "bytearray", "defaultdict"}


def _is_unhashable_display(e: ast.AST) -> bool:
    return isinstance(e, (ast.List, ast.ListComp, ast.Dict, ast.DictComp, ast.Set, ast.SetComp)) or (
        isinstance(e, ast.Call) and isinstance(e.func, ast.Name) and e.func.id in _LISTY_CALLS
    )


def r12_10(prog: Program, chk: Check) -> None:
    from .c14 import effective_eq_hash

    chk.rule(
        "R12.10",
        "what is stored in a hashed field is hashable: a value class whose __hash__ is generated from its fields and whose __init__ is generated too (so arguments are stored as "
        "given) is never constructed with a list / dict / set display, a comprehension of those kinds, list(...) / sorted(...) / dict(...) / set(...), or a local that only ever "
        "holds such a value, in a field that takes part in the hash - hashing the value later (de-duplication of bounds, union members, cache keys) would raise TypeError. "
        "Scope: the classes whose instances are hashed (Value, Bound, Extension and their subclasses)",
        floor=20,
    )
    from .c14 import HASHABLE_EXTRA, HASHABLE_ROOTS

    # the classes whose instances are hashed: union members, bounds (de-duplicated through dicts), extensions, cache keys
    in_scope: Set[str] = set()
    for root in HASHABLE_ROOTS:
        in_scope.update(prog.subclasses(root))
    in_scope.update(c for c in HASHABLE_EXTRA if c in prog.classes)
    # classes of those families whose instances are never hashed (read at their use sites)
    never_hashed = {
        "CanAssignError": "an error tree is only rendered (str / display); nothing puts it into a set or uses it as a key",
        "_ConstrainedValue": "internal to FunctionScope: stored as a dict *value* and resolved by _resolve_value before any union is built",
    }
    hashed: Dict[str, Tuple[List[str], Set[str]]] = {}
    for cname, ci in prog.classes.items():
        if cname not in in_scope or cname in never_hashed:
            continue
        if not ci.is_dataclass or "__init__" in ci.methods or any("__init__" in c.methods for c in prog.mro(cname) if c.name != cname and c.is_dataclass):
            continue
        try:
            _, h = effective_eq_hash(prog, cname)
        except Exception:
            continue
        if h.kind != "generated":
            continue
        order = [f.name for f in prog.all_fields(cname) if not f.is_classvar and getattr(f, "init", True) is not False]
        hashed[cname] = (order, set(h.fields))
    n = 0
    for m, q, fn in prog.iter_functions():
        local_assigns: Dict[str, List[ast.AST]] = {}
        for node in walk_no_nested(fn):
            if isinstance(node, ast.Assign) and len(node.targets) == 1 and isinstance(node.targets[0], ast.Name):
                local_assigns.setdefault(node.targets[0].id, []).append(node.value)
            elif isinstance(node, ast.AnnAssign) and isinstance(node.target, ast.Name) and node.value is not None:
                local_assigns.setdefault(node.target.id, []).append(node.value)
        params = {a.arg for a in fn.args.args + fn.args.kwonlyargs} if isinstance(fn, (ast.FunctionDef, ast.AsyncFunctionDef)) else set()

        def unhashable(e: ast.AST) -> bool:
            if _is_unhashable_display(e):
                return True
            if isinstance(e, ast.Name) and e.id in local_assigns and e.id not in params:
                vals = [v for v in local_assigns[e.id] if not (isinstance(v, ast.Constant) and v.value is None)]
                return bool(vals) and all(_is_unhashable_display(v) for v in vals)
            return False

        for node in walk_no_nested(fn):
            if not (isinstance(node, ast.Call) and isinstance(node.func, ast.Name) and node.func.id in hashed):
                continue
            order, hfields = hashed[node.func.id]
            bound: List[Tuple[str, ast.AST]] = []
            for i, a in enumerate(node.args):
                if isinstance(a, ast.Starred) or i >= len(order):
                    break
                bound.append((order[i], a))
            bound += [(k.arg, k.value) for k in node.keywords if k.arg]
            for fname, expr in bound:
                if fname not in hfields:
                    continue
                n += 1
                chk.ob(
                    "R12.10",
                    f"{m}::{q}::{node.func.id}({fname}=...)::{norm(expr)[:40]}",
                    not unhashable(expr),
                    prog.site(m, node),
                    f"`{node.func.id}(... {fname}={norm(expr)[:50]} ...)` stores an unhashable container in a field that `{node.func.id}.__hash__` hashes: the first hash of the value raises TypeError",
                )
    chk.analysed["hashed_field_arguments"] = n


_old_run = run


def run(prog: Program, chk: Check) -> None:  # noqa: F811
    guard(chk, _old_run, prog, chk)
    guard(chk, r12_5, prog, chk)
    guard(chk, r12_7, prog, chk)
    guard(chk, r12_8, prog, chk)
    guard(chk, r12_9, prog, chk)
    guard(chk, r12_10, prog, chk)
    guard(chk, r12_11, prog, chk)
    guard(chk, r12_12, prog, chk)
    guard(chk, r12_13, prog, chk)
    guard(chk, r12_14, prog, chk)
    guard(chk, r12_15, prog, chk)
    guard(chk, r12_16, prog, chk)
    guard(chk, r12_17, prog, chk)

# ------------------------------------------------------------------- R12.11
def _null_yielding_scope_managers(prog: Program) -> Dict[str, ast.AST]:
    """Context-manager methods of Scope whose base implementation yields nothing while an
    override (FunctionScope) yields a value: what `with ... as x` binds may be None."""
    out: Dict[str, ast.AST] = {}
    base = prog.cls("Scope")
    for name, fn in base.methods.items():
        if not any("contextmanager" in norm(d) for d in fn.decorator_list):
            continue
        yields = [n for n in walk_no_nested(fn) if isinstance(n, ast.Yield)]
        if not yields or not all(y.value is None or (isinstance(y.value, ast.Constant) and y.value.value is None) for y in yields):
            continue
        for sub in prog.subclasses("Scope"):
            if sub == "Scope":
                continue
            ofn = prog.cls(sub).methods.get(name)
            if ofn is not None and any(isinstance(n, ast.Yield) and n.value is not None for n in walk_no_nested(ofn)):
                out[name] = fn
    return out


def _none_guarded(use: ast.AST, name: str, fn: ast.AST) -> bool:
    """`use` is evaluated only when `name is not None`: an enclosing if / and / conditional
    expression tests it, or an earlier `if name is None: return` of the function precedes it."""
    pos = f"{name} is not None"
    neg = f"{name} is None"
    child, cur = use, parent(use)
    while cur is not None and child is not fn:
        if isinstance(cur, ast.If) and child in cur.body and pos in [norm(t) for t in _conjuncts(cur.test)]:
            return True
        if isinstance(cur, ast.If) and child in cur.orelse and norm(cur.test) == neg:
            return True
        if isinstance(cur, ast.IfExp) and child is cur.body and pos in [norm(t) for t in _conjuncts(cur.test)]:
            return True
        if isinstance(cur, ast.BoolOp) and isinstance(cur.op, ast.And):
            idx = cur.values.index(child) if child in cur.values else -1
            if idx > 0 and any(norm(v) == pos for v in cur.values[:idx]):
                return True
        child, cur = cur, parent(cur)
    body = getattr(fn, "body", [])
    for st in body:
        if getattr(st, "lineno", 0) >= getattr(use, "lineno", 0):
            break
        if isinstance(st, ast.If) and norm(st.test) == neg and st.body and isinstance(st.body[-1], (ast.Return, ast.Raise)):
            return True
    return False


def _conjuncts(test: ast.AST) -> List[ast.AST]:
    if isinstance(test, ast.BoolOp) and isinstance(test.op, ast.And):
        return [c for v in test.values for c in _conjuncts(v)]
    return [test]


def _deref_uses(fn: ast.AST, name: str, after: int) -> Tuple[List[ast.AST], List[Tuple[ast.Call, int]]]:
    """(uses of `name` that need an object - iteration, subscript, attribute, `in` - , calls it is handed to)."""
    derefs: List[ast.AST] = []
    passed: List[Tuple[ast.Call, int]] = []
    for n in walk_no_nested(fn):
        if not (isinstance(n, ast.Name) and n.id == name and isinstance(n.ctx, ast.Load) and n.lineno >= after):
            continue
        p = parent(n)
        if isinstance(p, (ast.For, ast.AsyncFor)) and p.iter is n:
            derefs.append(n)
        elif isinstance(p, ast.comprehension) and p.iter is n:
            derefs.append(n)
        elif isinstance(p, ast.Subscript) and p.value is n:
            derefs.append(n)
        elif isinstance(p, ast.Attribute) and p.value is n:
            derefs.append(n)
        elif isinstance(p, ast.Compare) and n in p.comparators and any(isinstance(o, (ast.In, ast.NotIn)) for o in p.ops):
            derefs.append(n)
        elif isinstance(p, ast.Starred):
            derefs.append(n)
        elif isinstance(p, ast.Call) and n in p.args:
            passed.append((p, p.args.index(n)))
        elif isinstance(p, ast.Call) and p.func is n:
            derefs.append(n)
    return derefs, passed


def r12_11(prog: Program, chk: Check) -> None:
    chk.rule(
        "R12.11",
        "what a scope context manager binds may be None: `Scope.subscope` / `Scope.loop_scope` (module and class scopes) yield nothing while the FunctionScope overrides yield "
        "a dict / a list, so every `with self.scopes.<manager>() as x` hands out an optional value - each use of x that needs an object (iteration, comprehension, subscript, "
        "attribute, `in`, unpacking) is evaluated only under `x is not None` (enclosing if / and / conditional expression, or an earlier `if x is None: return`), in the "
        "function itself and in the methods x is passed to; otherwise a loop at module or class level raises TypeError (internal_error)",
        floor=2,
    )
    managers = _null_yielding_scope_managers(prog)
    if not managers:
        raise AnchorError("no scope context manager with a value-less base implementation found")
    chk.analysed["optional_scope_managers"] = sorted(managers)
    sinks = {"combine_subscopes"}  # Scope.combine_subscopes ignores its argument; the FunctionScope one is only reached with real subscopes
    n_bind = 0
    seen_callee: Set[Tuple[str, str]] = set()

    def check(m: str, q: str, fn: ast.AST, name: str, after: int, origin: str, depth: int) -> None:
        derefs, passed = _deref_uses(fn, name, after)
        for use in derefs:
            chk.ob(
                "R12.11",
                f"{m}::{q}::{name}::{norm(parent(use))[:50]}",
                _none_guarded(use, name, fn),
                prog.site(m, use),
                f"`{norm(parent(use))[:70]}` needs `{name}` to be an object, but {origin} binds None outside function scopes: TypeError -> internal_error for a module- or class-level statement",
            )
        for call, idx in passed:
            callee = last_attr(call.func) if isinstance(call.func, ast.Attribute) else None
            if callee in sinks or callee is None:
                continue
            if _none_guarded(call, name, fn):
                continue
            if isinstance(call.func, ast.Attribute) and isinstance(call.func.value, ast.Name) and call.func.value.id == "self" and depth < 3:
                cls = q.split(".")[0]
                found = prog.find_method(cls, callee)
                if found is None:
                    continue
                cfn = found[1]
                params = [a.arg for a in cfn.args.args][1:]
                if idx < len(params) and (found[0].name, callee, params[idx]) not in seen_callee:
                    seen_callee.add((found[0].name, callee, params[idx]))  # type: ignore[arg-type]
                    check(prog.module_of_class(found[0].name) if hasattr(prog, "module_of_class") else m, f"{found[0].name}.{callee}", cfn, params[idx], 0, origin, depth + 1)

    for m, q, fn in prog.iter_functions():
        for node in walk_no_nested(fn):
            if not isinstance(node, (ast.With, ast.AsyncWith)):
                continue
            for item in node.items:
                ce = item.context_expr
                if not (isinstance(ce, ast.Call) and isinstance(ce.func, ast.Attribute) and ce.func.attr in managers and isinstance(item.optional_vars, ast.Name)):
                    continue
                if isinstance(ce.func.value, ast.Name) and ce.func.value.id == "self" and q.split(".")[0] in prog.subclasses("Scope") and q.split(".")[0] != "Scope":
                    continue  # inside FunctionScope itself the override is the one that runs
                n_bind += 1
                check(m, q, fn, item.optional_vars.id, node.lineno, f"`with {norm(ce)} as {item.optional_vars.id}`", 0)
    chk.analysed["optional_scope_bindings"] = n_bind
    if n_bind < 6:
        raise AnchorError(f"only {n_bind} `with ... as x` bindings of optional scope managers found (expected the loop / if / try visitors)")


# ------------------------------------------------------------------- R12.12
def r12_12(prog: Program, chk: Check) -> None:
    chk.rule(
        "R12.12",
        "a digit test that guards int() is the one int() agrees with: `int(s)` on a string that a test of the same string lets through is guarded by `s.isdecimal()` (or runs under a "
        "handler that catches ValueError) - `str.isdigit()` and `str.isnumeric()` also accept characters such as '²' or '①' that int() rejects with ValueError, which escapes as "
        "internal_error when the string is a field name of a format string of the checked program",
        floor=1,
    )
    n = 0
    for m, q, fn in prog.iter_functions():
        for call in walk_no_nested(fn):
            if not (isinstance(call, ast.Call) and isinstance(call.func, ast.Name) and call.func.id == "int" and len(call.args) == 1 and isinstance(call.args[0], (ast.Name, ast.Attribute))):
                continue
            subject = norm(call.args[0])
            tests: List[str] = []
            child, cur = call, parent(call)
            while cur is not None and child is not fn:
                if isinstance(cur, ast.If) and child in cur.body:
                    tests += [norm(t) for t in _conjuncts(cur.test)]
                if isinstance(cur, ast.IfExp) and child is cur.body:
                    tests += [norm(t) for t in _conjuncts(cur.test)]
                child, cur = cur, parent(cur)
            digit_tests = [t for t in tests if t in (f"{subject}.isdecimal()", f"{subject}.isdigit()", f"{subject}.isnumeric()")]
            if not digit_tests:
                continue
            t = _enclosing_try(call, fn)
            caught = t is not None and (_handler_is_broad(t) or any("ValueError" in norm(h.type) for h in t.handlers if h.type is not None))
            n += 1
            chk.ob(
                "R12.12",
                f"{m}::{q}::int({subject})",
                caught or f"{subject}.isdecimal()" in digit_tests,
                prog.site(m, call),
                f"`int({subject})` is guarded by `{digit_tests[0]}`, which lets through characters int() rejects (e.g. '²'): ValueError -> internal_error",
            )
    chk.analysed["digit_guarded_int_conversions"] = n


# ------------------------------------------------------------------- R12.13
def r12_13(prog: Program, chk: Check) -> None:
    chk.rule(
        "R12.13",
        "the safe_* wrappers guard the whole operation: in every `safe_*` function of pyanalyze.safe (and is_hashable) - the helpers the value layer calls on objects of the checked "
        "program - a handler catches Exception, and nothing outside the guarded block can run code of those objects: no call, comparison, truth test, subscript or attribute access on "
        "a parameter or on a result computed from one (`bool(left == right)` converts a numpy-style comparison result whose __bool__ raises - outside the guard that is an "
        "internal_error for every literal comparison of such objects)",
        floor=5,
    )
    mod = prog.module("safe")
    n = 0
    for st in mod.tree.body:
        if not (isinstance(st, ast.FunctionDef) and (st.name.startswith("safe_") or st.name == "is_hashable")):
            continue
        n += 1
        tries = [s for s in st.body if isinstance(s, ast.Try)]
        broad = bool(tries) and all(_handler_is_broad(t) for t in tries)
        chk.ob("R12.13", f"safe::{st.name}::catches-Exception", broad, prog.site("safe", st), f"`{st.name}` promises not to raise: its operation must run under `except Exception`")
        params = {a.arg for a in st.args.args + st.args.kwonlyargs}
        tainted = set(params)
        for _ in range(3):
            for node in ast.walk(st):
                if isinstance(node, ast.Assign) and any(isinstance(x, ast.Name) and x.id in tainted for x in ast.walk(node.value)):
                    tainted |= {x.id for t in node.targets for x in ast.walk(t) if isinstance(x, ast.Name)}
        guarded_nodes = {id(x) for t in tries for b in t.body for x in ast.walk(b)}
        outside = []
        for node in ast.walk(st):
            if id(node) in guarded_nodes or node is st:
                continue
            runs_user_code = (
                (isinstance(node, (ast.Call, ast.Compare, ast.Subscript, ast.BinOp)) or (isinstance(node, ast.Attribute) and isinstance(node.ctx, ast.Load))
                 or (isinstance(node, ast.UnaryOp) and isinstance(node.op, ast.Not)) or isinstance(node, (ast.If, ast.IfExp, ast.BoolOp, ast.While)))
                and any(isinstance(x, ast.Name) and x.id in tainted for x in ast.walk(node))
            )
            if runs_user_code and not any(id(node) in {id(y) for y in ast.walk(a)} for a in st.args.args + st.args.kwonlyargs if a.annotation is not None for a in [a.annotation]):
                outside.append(node)
        chk.ob(
            "R12.13",
            f"safe::{st.name}::nothing-runs-outside-the-guard",
            not outside,
            prog.site("safe", outside[0] if outside else st),
            f"`{norm(outside[0])[:60]}` in `{st.name}` runs code of the object outside the try block: what it raises escapes" if outside else "",
        )
    chk.analysed["safe_wrappers"] = n


# ------------------------------------------------------------------- R12.14
def _truth_tests(fn: ast.AST, name: str) -> List[ast.AST]:
    """Places where the truth value of local `name` is taken (bool() runs the object's __bool__ / __len__)."""
    out: List[ast.AST] = []

    def is_it(e: ast.AST) -> bool:
        return isinstance(e, ast.Name) and e.id == name

    for n in walk_no_nested(fn):
        if isinstance(n, (ast.If, ast.While, ast.IfExp, ast.Assert)) and is_it(n.test):
            out.append(n.test)
        elif isinstance(n, ast.UnaryOp) and isinstance(n.op, ast.Not) and is_it(n.operand):
            out.append(n)
        elif isinstance(n, ast.BoolOp) and any(is_it(v) for v in n.values[:-1] if True):
            out.append(n)
        elif isinstance(n, ast.Call) and isinstance(n.func, ast.Name) and n.func.id == "bool" and n.args and is_it(n.args[0]):
            out.append(n)
        elif isinstance(n, ast.comprehension) and any(is_it(c) for c in n.ifs):
            out.append(n.ifs[0])
    return out


def r12_14(prog: Program, chk: Check) -> None:
    chk.rule(
        "R12.14",
        "the truth value of what user code returned is taken inside the guard: where a try block with a catch-all handler stores the result of an operation on a literal payload "
        "(`result = op(value.val, pattern)` - a comparison, an operator function, a call of the payload), every place of the function that takes the truth value of that result "
        "(`if result`, `not result`, `bool(result)`, `and` / `or`) is itself inside a try block that catches Exception (`in` / `is` always give a bool and are exempt): a rich-comparison result (numpy-style arrays, SQL "
        "expression objects) raises from __bool__, and outside the guard that is an internal_error for a plain `if A == B:` of the checked program",
        floor=2,
    )
    n = 0
    checked_sites = 0
    for m, q, fn in prog.iter_functions():
        if m.startswith("test_") or ".test_" in m:
            continue
        tainted = _payload_taint(fn)
        # a callee that is a local or a parameter: an operator function picked from a table (`op = _OPERATOR[...]`)
        local_names = {x.id for x in walk_no_nested(fn) if isinstance(x, ast.Name) and isinstance(x.ctx, ast.Store)}
        if isinstance(fn, (ast.FunctionDef, ast.AsyncFunctionDef)):
            local_names |= {a.arg for a in fn.args.args + fn.args.kwonlyargs}
        for t in [x for x in walk_no_nested(fn) if isinstance(x, ast.Try) and x.handlers and _handler_is_broad(x)]:
            for st in [s for b in t.body for s in ast.walk(b)]:
                if not (isinstance(st, ast.Assign) and len(st.targets) == 1 and isinstance(st.targets[0], ast.Name)):
                    continue
                v = st.value
                converted = isinstance(v, ast.Call) and isinstance(v.func, ast.Name) and v.func.id == "bool" and len(v.args) == 1
                if converted:
                    v = v.args[0]  # bool(<operation>) inside the guard: what is stored is a bool
                runs_user_code = (
                    # `in` / `not in` / `is` always produce a bool (the conversion happens inside the expression); == < ... return what the object returns
                    # (len() / hash() / id() of a payload are ints: comparing them gives a bool)
                    (isinstance(v, ast.Compare) and any(isinstance(o, (ast.Eq, ast.NotEq, ast.Lt, ast.LtE, ast.Gt, ast.GtE)) for o in v.ops)
                     and any(_is_payload(o, tainted) and not (isinstance(o, ast.Call) and isinstance(o.func, ast.Name) and o.func.id in ("len", "hash", "id")) for o in [v.left] + list(v.comparators)))
                    or (isinstance(v, ast.Call) and any(_is_payload(a, tainted) for a in v.args) and isinstance(v.func, ast.Name) and v.func.id in local_names)
                    or (isinstance(v, ast.Call) and _is_payload(v.func, tainted))
                    or (isinstance(v, ast.BinOp) and (_is_payload(v.left, tainted) or _is_payload(v.right, tainted)))
                )
                if not runs_user_code:
                    continue
                checked_sites += 1
                name = st.targets[0].id
                for test in _truth_tests(fn, name):
                    tt = _enclosing_try(test, fn)
                    n += 1
                    chk.ob(
                        "R12.14",
                        f"{m}::{q}::truth-of::{name}::{norm(test)[:40]}",
                        converted or (tt is not None and _handler_is_broad(tt)),
                        prog.site(m, test),
                        f"`{norm(test)[:60]}` takes the truth value of `{name} = {norm(v)[:60]}` (the result of user code) outside a try block that catches Exception: a result whose __bool__ raises escapes as internal_error",
                    )
    chk.analysed["truth_tests_of_user_results"] = n
    chk.analysed["user_results_stored_under_a_guard"] = checked_sites


# ------------------------------------------------------------------- R12.15
def r12_15(prog: Program, chk: Check) -> None:
    chk.rule(
        "R12.15",
        "what a value class prints of a literal is produced under a guard: in the __str__ methods of the Value classes - the text every diagnostic that mentions a value is built "
        "from - repr() / str() / an f-string conversion of a literal payload runs inside a try block that catches Exception, directly or in a helper whose own conversion is "
        "guarded; the payload is an object of the checked program (a raising __repr__) or an int with more digits than int-to-str conversion allows (`10 ** 5000`)",
        floor=2,
    )
    value_classes = set(prog.subclasses("Value"))
    helpers_ok: Dict[str, bool] = {}

    def helper_is_guarded(name: str) -> Optional[bool]:
        """None: not a helper that converts its argument to text; otherwise whether the conversion is guarded."""
        if name not in helpers_ok:
            ok: Optional[bool] = None
            for mname in prog.modules:
                try:
                    f = prog.func(mname, name)
                except Exception:
                    continue
                params = {a.arg for a in f.args.args}
                convs = [c for c in walk_no_nested(f) if isinstance(c, ast.Call) and isinstance(c.func, ast.Name) and c.func.id in ("repr", "str", "format") and c.args and isinstance(c.args[0], ast.Name) and c.args[0].id in params]
                convs += [c for c in walk_no_nested(f) if isinstance(c, ast.FormattedValue) and isinstance(c.value, ast.Name) and c.value.id in params]
                if convs:
                    ok = all((lambda t: t is not None and _handler_is_broad(t))(_enclosing_try(c, f)) for c in convs)
                    break
            helpers_ok[name] = ok
        return helpers_ok[name]

    n = 0
    for cname in sorted(value_classes):
        ci = prog.classes.get(cname)
        if ci is None or "__str__" not in ci.methods:
            continue
        fn = ci.methods["__str__"]
        tainted = _payload_taint(fn)
        for node in walk_no_nested(fn):
            conv = None
            if isinstance(node, ast.FormattedValue) and _is_payload(node.value, tainted):
                conv = node.value
            elif isinstance(node, ast.Call) and isinstance(node.func, ast.Name) and node.args and _is_payload(node.args[0], tainted):
                if node.func.id in ("repr", "str", "format"):
                    conv = node.args[0]
                elif helper_is_guarded(node.func.id) is not None:
                    n += 1
                    chk.ob(
                        "R12.15", f"{ci.module.name}::{cname}.__str__::{node.func.id}({norm(node.args[0])})", bool(helper_is_guarded(node.func.id)), prog.site(ci.module.name, node),
                        f"`{node.func.id}` converts a literal of the checked program to text outside a guard (called from {cname}.__str__): a raising __repr__ turns every diagnostic that mentions the value into an internal_error",
                    )
                    continue
            if conv is None:
                continue
            t = _enclosing_try(node, fn)
            n += 1
            chk.ob(
                "R12.15",
                f"{ci.module.name}::{cname}.__str__::text-of::{norm(conv)}",
                t is not None and _handler_is_broad(t),
                prog.site(ci.module.name, node),
                f"`{norm(node)[:60]}` in {cname}.__str__ converts a literal of the checked program to text outside a guard: a raising __repr__ (or an int too long to print) turns every diagnostic that mentions the value into an internal_error",
            )
    chk.analysed["literal_text_sites"] = n


# ------------------------------------------------------------------- R12.16
def r12_16(prog: Program, chk: Check) -> None:
    chk.rule(
        "R12.16",
        "an operator function picked from a table and applied to a literal payload runs under a guard: `op = TABLE[...]` / `op, _, _ = TABLE[type(node)]` followed by "
        "`op(x.val, y)` executes user code (or raises TypeError for operands that do not support the comparison, as in `sys.version_info >= \"3.8\"`); every such call is inside a "
        "try block that catches Exception. Likewise len() of a payload that may be a range (an enclosing isinstance test names `range`) is inside a handler for OverflowError",
        floor=3,
    )
    n = 0
    for m, q, fn in prog.iter_functions():
        if m.startswith("test_"):
            continue
        tainted = _payload_taint(fn)
        table_locals: Set[str] = set()
        for st in walk_no_nested(fn):
            if isinstance(st, ast.Assign) and isinstance(st.value, ast.Subscript) and isinstance(st.value.value, ast.Name) and st.value.value.id.isupper():
                for t in st.targets:
                    table_locals |= {x.id for x in ast.walk(t) if isinstance(x, ast.Name) and isinstance(x.ctx, ast.Store)}
            if isinstance(st, ast.Assign) and isinstance(st.value, ast.IfExp) and all(isinstance(b, ast.Name) and b.id in table_locals for b in (st.value.body, st.value.orelse)):
                table_locals |= {t.id for t in st.targets if isinstance(t, ast.Name)}
        # closures see the operator locals of the enclosing function
        outer = parent(fn)
        while outer is not None and not isinstance(outer, (ast.FunctionDef, ast.AsyncFunctionDef)):
            outer = parent(outer)
        if outer is not None:
            for st in walk_no_nested(outer):
                if isinstance(st, ast.Assign) and isinstance(st.value, ast.Subscript) and isinstance(st.value.value, ast.Name) and st.value.value.id.isupper():
                    for t in st.targets:
                        table_locals |= {x.id for x in ast.walk(t) if isinstance(x, ast.Name) and isinstance(x.ctx, ast.Store)}
            for st in walk_no_nested(fn):
                if isinstance(st, ast.Assign) and isinstance(st.value, ast.IfExp) and all(isinstance(b, ast.Name) and b.id in table_locals for b in (st.value.body, st.value.orelse)):
                    table_locals |= {t.id for t in st.targets if isinstance(t, ast.Name)}
        for call in walk_no_nested(fn):
            if not isinstance(call, ast.Call) or not isinstance(call.func, ast.Name):
                continue
            if call.func.id in table_locals and any(_is_payload(a, tainted) for a in call.args):
                t = _enclosing_try(call, fn)
                n += 1
                chk.ob("R12.16", f"{m}::{q}::operator-on-payload::{norm(call)[:50]}", t is not None and _handler_is_broad(t), prog.site(m, call),
                       f"`{norm(call)[:70]}` applies an operator function to a literal of the checked program outside a try block that catches Exception")
            elif call.func.id == "len" and call.args and _is_payload(call.args[0], tainted):
                names_range = False
                child, cur = call, parent(call)
                while cur is not None and child is not fn:
                    if isinstance(cur, ast.If) and child in cur.body and "range" in norm(cur.test) and "isinstance" in norm(cur.test):
                        names_range = True
                    child, cur = cur, parent(cur)
                if not names_range:
                    continue
                t = _enclosing_try(call, fn)
                ok = t is not None and (_handler_is_broad(t) or any("OverflowError" in norm(h.type) for h in t.handlers if h.type is not None))
                n += 1
                chk.ob("R12.16", f"{m}::{q}::len-of-range::{norm(call)[:50]}", ok, prog.site(m, call),
                       f"`{norm(call)}` may be the length of a range: len(range(10 ** 30)) raises OverflowError")
    chk.analysed["operator_calls_on_payloads"] = n


# ------------------------------------------------------------------- R12.17
def r12_17(prog: Program, chk: Check) -> None:
    import itertools

    from ..minterp import AssertionFailed, Interp, ModelError, Obj, PyRaise, Sym, Unsupported

    chk.rule(
        "R12.17",
        "a signature built from a legal def header is a valid signature, as a finite model: Signature.make (which turns `*args: Unpack[tuple[X, Y]]` into positional-only "
        "parameters and `**kwargs: Unpack[TD]` into keyword-only ones) followed by Signature.validate, with KIND_TO_ALLOWED_PREVIOUS / CAN_HAVE_DEFAULT read from the module, is "
        "interpreted for every header of up to two positional-only, two positional-or-keyword and one keyword-only parameter (defaults trailing, as the grammar demands), an "
        "optional *args annotated plainly or with a fixed tuple of one or two members, and an optional **kwargs annotated plainly or with a TypedDict: validate never raises "
        "InvalidSignature - it is raised wherever the signature is needed and reported as internal_error",
        floor=2,
    )
    sig = prog.cls("Signature")
    make, validate = sig.methods.get("make"), sig.methods.get("validate")
    if make is None or validate is None:
        raise AnchorError("Signature.make / Signature.validate not found")
    kinds = ("POSITIONAL_ONLY", "POSITIONAL_OR_KEYWORD", "VAR_POSITIONAL", "KEYWORD_ONLY", "VAR_KEYWORD", "PARAM_SPEC", "ELLIPSIS")
    PK = Obj("ParameterKindCls", **{k: Obj("ParameterKind", name=k) for k in kinds})
    tables: Dict[str, ast.AST] = {}
    for st in prog.module("signature").tree.body:
        if isinstance(st, ast.Assign) and len(st.targets) == 1 and isinstance(st.targets[0], ast.Name) and st.targets[0].id in ("KIND_TO_ALLOWED_PREVIOUS", "CAN_HAVE_DEFAULT"):
            tables[st.targets[0].id] = st.value
    if set(tables) != {"KIND_TO_ALLOWED_PREVIOUS", "CAN_HAVE_DEFAULT"}:
        raise AnchorError("KIND_TO_ALLOWED_PREVIOUS / CAN_HAVE_DEFAULT are not module-level displays of pyanalyze.signature")

    def hook(v, cls):
        if cls in ("SequenceValue", "TypedDictValue"):
            return isinstance(v, Obj) and v._kind == cls
        return None

    def sigparam(args, kwargs=None):
        d = dict(zip(("name", "kind", "default", "annotation"), args))
        d.update(kwargs or {})
        d.setdefault("kind", PK._attrs["POSITIONAL_OR_KEYWORD"])
        d.setdefault("default", None)
        d.setdefault("annotation", Obj("Value"))
        return Obj("SigParameter", **d)

    sigparam.wants_kwargs = True  # type: ignore[attr-defined]
    funcs = {
        "SigParameter": sigparam, "AnyValue": lambda a: Obj("Value"), "GenericValue": lambda a: Obj("Value"), "TypedValue": lambda a: Obj("Value"),
        "InvalidSignature": lambda a: Obj("InvalidSignature", message=""),
        "safe_getattr": lambda a: a[2] if len(a) > 2 else None,
    }
    base_globals = {"ParameterKind": PK, "AnySource": Obj("AnySource", unannotated=Sym("unannotated"), marker=Sym("marker")), "__concrete_fstrings__": False}
    it0 = Interp({}, {}, (), funcs, hook, {}, {}, dict(base_globals))
    try:
        allowed = it0.ev(tables["KIND_TO_ALLOWED_PREVIOUS"])
        can_default = it0.ev(tables["CAN_HAVE_DEFAULT"])
    except Unsupported as u:
        raise AnchorError(f"the parameter-kind tables cannot be evaluated: {u}")

    def seq(n):
        members = [Obj("Value") for _ in range(n)]
        return Obj("SequenceValue", get_member_sequence=lambda members=members: list(members))

    td = Obj("TypedDictValue", items={"k1": Obj("TypedDictEntry", typ=Obj("Value"), required=True), "k2": Obj("TypedDictEntry", typ=Obj("Value"), required=False)}, extra_keys=None)
    invalid, crashes = [], []
    n = 0
    for npo, npok, nko in itertools.product(range(3), range(3), range(2)):
        npos = npo + npok
        for ndef in range(npos + 1):  # the last `ndef` positional parameters have defaults
            for vp in (None, "plain", 1, 2):
                for vk in (None, "plain", "td"):
                    for ko_default in ((False, True) if nko else (False,)):
                        params = []
                        header = []
                        for i in range(npos):
                            kind = "POSITIONAL_ONLY" if i < npo else "POSITIONAL_OR_KEYWORD"
                            has_def = i >= npos - ndef
                            params.append(sigparam([f"p{i}", PK._attrs[kind]], {"default": Obj("Value") if has_def else None}))
                            header.append(f"p{i}" + ("=0" if has_def else ""))
                            if i == npo - 1:
                                header.append("/")
                        if vp is not None:
                            params.append(sigparam(["args", PK._attrs["VAR_POSITIONAL"]], {"annotation": Obj("Value") if vp == "plain" else seq(vp)}))
                            header.append("*args" + ("" if vp == "plain" else f": Unpack[tuple[{', '.join(['int'] * vp)}]]"))
                        elif nko:
                            header.append("*")
                        for j in range(nko):
                            params.append(sigparam([f"k{j}", PK._attrs["KEYWORD_ONLY"]], {"default": Obj("Value") if ko_default else None}))
                            header.append(f"k{j}" + ("=0" if ko_default else ""))
                        if vk is not None:
                            params.append(sigparam(["kwargs", PK._attrs["VAR_KEYWORD"]], {"annotation": Obj("Value") if vk == "plain" else td}))
                            header.append("**kwargs" + ("" if vk == "plain" else ": Unpack[TD]"))
                        n += 1
                        d = {"header": "def f(" + ", ".join(header) + ")"}
                        created: List[Obj] = []

                        def ctor(*a, **k):
                            o = Obj("Signature", parameters=a[0], **{kk: vv for kk, vv in k.items()})
                            created.append(o)
                            return o

                        cls_obj = Obj("SignatureCls", __call__=ctor)
                        it = Interp({}, {}, (), funcs, hook, {}, {}, dict(base_globals, KIND_TO_ALLOWED_PREVIOUS=allowed, CAN_HAVE_DEFAULT=can_default))
                        try:
                            s_obj = it.call_def(make, [cls_obj, params, Obj("Value")], make)
                            it.call_def(validate, [s_obj], validate)
                        except Unsupported as u:
                            raise AnchorError(f"Signature.make / validate cannot be modelled: {u}")
                        except PyRaise as pr:
                            if pr.kind == "InvalidSignature":
                                invalid.append({**d, "parameters after make": [f"{p._attrs['name']}:{p._attrs['kind']._attrs['name']}" + ("=…" if p._attrs["default"] is not None else "") for p in (created[0]._attrs["parameters"].values() if created else [])]})
                            else:
                                crashes.append({**d, "error": str(pr)})
                        except (AssertionFailed, ModelError) as e:
                            crashes.append({**d, "error": str(e)})
    chk.model_evaluations += n
    site = prog.site("signature", make)
    invalid.sort(key=lambda x: len(x["header"]))
    chk.ob("R12.17", "signature::Signature.make::a legal header gives a valid signature", not invalid, site, f"{n} headers, {len(invalid)} rejected by Signature.validate" + (f"; smallest: {invalid[0]}" if invalid else ""), witness=invalid[:5])
    chk.ob("R12.17", "signature::Signature.make::no-crash", not crashes, site, f"{len(crashes)} crashes" + (f"; first: {crashes[0]}" if crashes else ""), witness=crashes[:3])
