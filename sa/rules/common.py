"""Shared tables and helpers for the rule modules."""

from __future__ import annotations

import ast
from typing import Dict, Iterable, Iterator, List, Optional, Sequence, Set, Tuple

from ..adi import BOOL_UNIVERSE, FALSE, TRUE, Interp, Universe, class_universe, enum_universe
from ..model import Program, dotted, last_attr, norm, parent, walk_no_nested

# Value subclasses that are never the type of a user-visible expression /
# variable; one reason each.  Keyed by class name; a class that disappears from
# the tree simply drops out, a *new* Value subclass is in the domain by default.
INTERNAL_VALUE_KINDS: Dict[str, str] = {
    "Value": "abstract root, never instantiated",
    "_SubscriptedValue": "annotations-internal: consumed by _type_from_value before leaving annotations.py",
    "TypeQualifierValue": "annotations-internal: Required/NotRequired/ReadOnly wrapper consumed by TypedDict construction",
    "DecoratorValue": "annotations-internal: stub decorator marker consumed by typeshed.py",
    "_StarredValue": "visitor-internal: produced by visit_Starred and consumed by the enclosing display/call",
    "_ConstrainedValue": "scope-internal: resolved by FunctionScope._resolve_value before any lookup returns",
    "ReferencingValue": "scope-internal: resolved by FunctionScope._resolve_value / resolve_name",
    "UnpackedValue": "only occurs as a member of a tuple type argument list",
    "CallValue": "argument bundle used for ParamSpec calls, never bound to a name",
    "VoidValue": "value of statements/definitions, never bound to a name or tested",
}

# module-level singletons -> class
SINGLETONS: Dict[str, str] = {
    "UNINITIALIZED_VALUE": "UninitializedValue",
    "NO_RETURN_VALUE": "MultiValuedValue",
    "VOID": "VoidValue",
}


def value_universe(prog: Program, extra_exclude: Sequence[str] = ()) -> Universe:
    ex = set(INTERNAL_VALUE_KINDS) | set(extra_exclude)
    return class_universe(prog, "Value", exclude=sorted(ex))


def full_value_universe(prog: Program) -> Universe:
    return class_universe(prog, "Value", exclude=["Value"])


def returns_of(func: ast.AST) -> List[ast.Return]:
    return [n for n in walk_no_nested(func) if isinstance(n, ast.Return)]


def yields_of(func: ast.AST) -> List[ast.AST]:
    return [n for n in walk_no_nested(func) if isinstance(n, (ast.Yield, ast.YieldFrom))]


def calls_in(node: ast.AST, name: Optional[str] = None, *, nested: bool = True) -> List[ast.Call]:
    it = ast.walk(node) if nested else walk_no_nested(node)
    out = []
    for n in it:
        if isinstance(n, ast.Call) and (name is None or last_attr(n) == name):
            out.append(n)
    return out


def guards_of(node: ast.AST, stop: ast.AST) -> List[Tuple[ast.expr, bool]]:
    """Enclosing if-tests with polarity (True = node is in the body) between
    `node` and the function `stop`.  elif chains contribute the negation of all
    earlier tests."""
    out: List[Tuple[ast.expr, bool]] = []
    child: ast.AST = node
    p = parent(node)
    while p is not None and child is not stop:
        if isinstance(p, ast.If):
            if any(child is s for s in p.body):
                out.append((p.test, True))
            elif any(child is s for s in p.orelse):
                out.append((p.test, False))
        elif isinstance(p, ast.IfExp):
            if child is p.body:
                out.append((p.test, True))
            elif child is p.orelse:
                out.append((p.test, False))
        elif isinstance(p, ast.While):
            if any(child is s for s in p.body):
                out.append((p.test, True))
        child = p
        p = parent(p)
    return out


def stmt_of(node: ast.AST) -> ast.stmt:
    n: Optional[ast.AST] = node
    while n is not None and not isinstance(n, ast.stmt):
        n = parent(n)
    assert n is not None
    return n  # type: ignore[return-value]


def local_assignments(func: ast.AST, name: str) -> List[ast.AST]:
    """All value expressions assigned to local `name` inside func (no nested defs).
    For loop / comprehension / with targets the *iterable*/context expr is
    returned wrapped in a marker tuple ("iter", expr)."""
    out: List[ast.AST] = []
    for n in walk_no_nested(func):
        if isinstance(n, ast.Assign):
            for t in n.targets:
                for sub in ast.walk(t):
                    # only a name that is *stored*: in `cache[key] = v` neither `cache` nor `key` is assigned
                    if isinstance(sub, ast.Name) and sub.id == name and isinstance(sub.ctx, ast.Store):
                        out.append(n.value)
        elif isinstance(n, (ast.AnnAssign, ast.AugAssign)) and n.value is not None:
            if isinstance(n.target, ast.Name) and n.target.id == name:
                out.append(n.value)
        elif isinstance(n, ast.NamedExpr) and n.target.id == name:
            out.append(n.value)
        elif isinstance(n, (ast.For, ast.AsyncFor)):
            for sub in ast.walk(n.target):
                if isinstance(sub, ast.Name) and sub.id == name:
                    out.append(n.iter)
        elif isinstance(n, ast.comprehension):
            for sub in ast.walk(n.target):
                if isinstance(sub, ast.Name) and sub.id == name:
                    out.append(n.iter)
        elif isinstance(n, (ast.With, ast.AsyncWith)):
            for item in n.items:
                if item.optional_vars is not None:
                    for sub in ast.walk(item.optional_vars):
                        if isinstance(sub, ast.Name) and sub.id == name:
                            out.append(item.context_expr)
    return out


def params_of(func: ast.AST) -> List[str]:
    a = func.args  # type: ignore[attr-defined]
    names = [x.arg for x in a.posonlyargs + a.args + a.kwonlyargs]
    if a.vararg:
        names.append(a.vararg.arg)
    if a.kwarg:
        names.append(a.kwarg.arg)
    return names


def enclosing_functions(node: ast.AST) -> List[ast.AST]:
    out = []
    p = parent(node)
    while p is not None:
        if isinstance(p, (ast.FunctionDef, ast.AsyncFunctionDef, ast.Lambda)):
            out.append(p)
        p = parent(p)
    return out


def name_leaves(expr: ast.AST) -> List[ast.Name]:
    """Name nodes in load position that carry *data* into the expression:
    not the callee name of a call, not inside the test of a conditional
    expression / comprehension filter, not the class argument of isinstance,
    not the base of a lookup in an ALL_CAPS module-level table."""
    skip: Set[int] = set()

    def skip_tree(t: ast.AST) -> None:
        for x in ast.walk(t):
            skip.add(id(x))

    for n in ast.walk(expr):
        if isinstance(n, ast.Call):
            if isinstance(n.func, ast.Name):
                skip.add(id(n.func))
                if n.func.id in ("isinstance", "issubclass", "safe_issubclass", "safe_isinstance") and len(n.args) == 2:
                    skip_tree(n.args[1])
        elif isinstance(n, ast.IfExp):
            skip_tree(n.test)
        elif isinstance(n, ast.comprehension):
            for c in n.ifs:
                skip_tree(c)
        elif isinstance(n, ast.Subscript) and isinstance(n.value, ast.Name) and n.value.id.isupper():
            skip.add(id(n.value))
    out = []
    for n in ast.walk(expr):
        if isinstance(n, ast.Name) and isinstance(n.ctx, ast.Load) and id(n) not in skip:
            out.append(n)
    return out


def comp_bound_names(expr: ast.AST) -> Dict[str, ast.AST]:
    out: Dict[str, ast.AST] = {}
    for n in ast.walk(expr):
        if isinstance(n, ast.comprehension):
            for sub in ast.walk(n.target):
                if isinstance(sub, ast.Name):
                    out[sub.id] = n.iter
    return out


def need_locals(fn: ast.AST, *names: str, where: str = "") -> None:
    """Anchor guard for rules whose patterns mention local variable names of
    the analysed function.  If one of the names is no longer bound or read in
    the function (a rename / restructuring), the rule cannot recognise its
    anchor: the run ends as ANALYSIS-ERROR (exit 2), never as a VIOLATION."""
    from ..model import AnchorError

    present = set()
    for n in ast.walk(fn):
        if isinstance(n, ast.Name):
            present.add(n.id)
        elif isinstance(n, ast.arg):
            present.add(n.arg)
    missing = [x for x in names if x not in present]
    if missing:
        fname = getattr(fn, "name", "?")
        raise AnchorError(f"{where or fname}: local name(s) {missing} the rule is anchored on are gone (renamed or restructured)")
