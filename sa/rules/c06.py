"""C06 - call checking: error discipline of argument/parameter type checks."""

from __future__ import annotations

import ast
from typing import Dict, List, Optional, Set, Tuple

from ..model import AnchorError, Program, dotted, kw, last_attr, norm, parent, walk_no_nested
from ..report import Check, guard
from .common import calls_in, guards_of, local_assignments, need_locals, returns_of, stmt_of


def r06_a(prog: Program, chk: Check) -> None:
    chk.rule("R06.a", "failing parameter checks are never dropped: the error path reports and returns None, both callers test for None, the flag reaches CallReturn.is_error", floor=7)
    pc = prog.func("signature", "Signature._check_param_type_compatibility")
    need_locals(pc, "bounds_map", "param_typ", "composite", "typevar_map", "ctx", "param")
    site = prog.site("signature", pc)
    # error path: on_error then return (None, ...)
    errs = [s for s in walk_no_nested(pc) if isinstance(s, ast.Expr) and isinstance(s.value, ast.Call) and norm(s.value.func) == "ctx.on_error"]
    ok = bool(errs)
    for e in errs:
        blk = parent(e).body if e in getattr(parent(e), "body", []) else parent(e).orelse  # type: ignore[union-attr]
        nxt = blk[blk.index(e) + 1] if blk.index(e) + 1 < len(blk) else None
        ok = ok and isinstance(nxt, ast.Return) and isinstance(nxt.value, ast.Tuple) and isinstance(nxt.value.elts[0], ast.Constant) and nxt.value.elts[0].value is None
        ok = ok and any(pol and "isinstance(bounds_map, CanAssignError)" in norm(g) for g, pol in guards_of(e, pc))
    chk.ob("R06.a", "signature::Signature._check_param_type_compatibility::error-path", ok, site, "an incompatible argument must be reported through ctx.on_error and signalled by returning None as the bounds map")
    code = [k for e in errs for k in e.value.keywords if k.arg == "code"]
    chk.ob("R06.a", "signature::Signature._check_param_type_compatibility::error-code", bool(code) and all("ErrorCode.incompatible_argument" in norm(k.value) for k in code), site, "the reported code must default to incompatible_argument")
    # the substituted type is what is checked
    t = norm(pc)
    chk.ob("R06.a", "signature::Signature._check_param_type_compatibility::substituted-type", "param_typ = param.annotation.substitute_typevars(typevar_map)" in t and "can_assign_and_used_any(param_typ, composite.value" in t, site, "the argument must be checked against the parameter type with the solved type variables substituted")
    cc = prog.func("signature", "Signature.check_call_with_bound_args")
    need_locals(cc, "had_error", "errors", "bound_args", "typevar_values")
    sites = calls_in(cc, "_check_param_type_compatibility")
    if len(sites) != 2:
        raise AnchorError("check_call_with_bound_args: expected 2 calls of _check_param_type_compatibility")
    for i, c in enumerate(sorted(sites, key=lambda c: c.lineno)):
        st = stmt_of(c)
        first = None
        if isinstance(st, ast.Assign) and isinstance(st.targets[0], ast.Tuple):
            first = norm(st.targets[0].elts[0])
        tested = None
        for n in walk_no_nested(cc):
            if isinstance(n, ast.If) and first and norm(n.test) == f"{first} is None" and n.lineno > st.lineno:
                tested = n
                break
        ok = tested is not None
        how = ""
        if tested is not None:
            body = [norm(s) for s in tested.body]
            if any(b == "return self.get_default_return()" for b in body):
                how = "returns the default (error) return"
            elif any(b == "had_error = True" for b in body):
                how = "sets had_error"
            else:
                ok = False
        chk.ob(
            "R06.a",
            f"signature::Signature.check_call_with_bound_args::none-tested#{i + 1}",
            ok,
            prog.site("signature", c),
            f"the bounds map returned by _check_param_type_compatibility must be tested for None and mapped to an error ({how or 'not found'})",
        )
    cr = [c for c in calls_in(cc, "CallReturn")]
    ok = bool(cr) and all(kw(c, "is_error") is not None and norm(kw(c, "is_error")) == "had_error" for c in cr)
    chk.ob("R06.a", "signature::Signature.check_call_with_bound_args::flag-reaches-result", ok, prog.site("signature", cc), "had_error must be passed as CallReturn.is_error")
    gd = prog.func("signature", "Signature.get_default_return")
    ok = any(kw(c, "is_error") is not None and norm(kw(c, "is_error")) == "True" for c in calls_in(gd, "CallReturn"))
    chk.ob("R06.a", "signature::Signature.get_default_return::is-error", ok, prog.site("signature", gd), "the default return must be flagged is_error=True")
    # typevar resolution errors
    ok = False
    for n in walk_no_nested(cc):
        if isinstance(n, ast.If) and norm(n.test) == "errors":
            body = [norm(s) for s in n.body]
            ok = any("show_call_error" in b for b in body) and body[-1] == "return self.get_default_return()"
    chk.ob("R06.a", "signature::Signature.check_call_with_bound_args::typevar-errors", ok, prog.site("signature", cc), "unsolvable type variables must be reported and end in the default (error) return")


def r06_b(prog: Program, chk: Check) -> None:
    chk.rule("R06.b", "every bound argument is checked against the substituted parameter type; impl and evaluator never see ill-typed arguments", floor=4)
    cc = prog.func("signature", "Signature.check_call_with_bound_args")
    site = prog.site("signature", cc)
    loop = None
    for n in walk_no_nested(cc):
        if isinstance(n, ast.For) and norm(n.iter) == "bound_args.items()" and any(last_attr(c) == "_check_param_type_compatibility" for c in calls_in(n)):
            loop = n
    if loop is None:
        raise AnchorError("check_call_with_bound_args: main loop over bound_args.items() not found")
    call = [c for c in calls_in(loop, "_check_param_type_compatibility")][0]
    before = [s for s in loop.body if s.lineno < call.lineno]
    skips = [x for s in before for x in ast.walk(s) if isinstance(x, (ast.Continue, ast.Break))]
    chk.ob("R06.b", "signature::Signature.check_call_with_bound_args::all-arguments-checked", not skips, site, "no bound argument may be skipped before its type check")
    args = [norm(a) for a in call.args]
    chk.ob("R06.b", "signature::Signature.check_call_with_bound_args::solved-typevars-passed", "typevar_values" in args, site, "the main pass must check against the solved type variables (typevar_values)")
    impl_calls = [c for c in calls_in(cc) if norm(c.func) == "self.impl"]
    ev_calls = [c for c in calls_in(cc) if norm(c.func) == "self.evaluator.evaluate"]
    for name, cs in (("impl", impl_calls), ("evaluator", ev_calls)):
        ok = bool(cs) and all(any(pol and norm(g) == "not had_error" for g, pol in guards_of(c, cc)) for c in cs)
        chk.ob("R06.b", f"signature::Signature.check_call_with_bound_args::{name}-skipped-on-error", ok, site, f"the {name} must only run when no argument check failed")
    # errors raised by the evaluator become call errors and set the flag
    ok = False
    for n in walk_no_nested(cc):
        if isinstance(n, ast.For) and norm(n.iter) == "errors":
            body = [norm(s) for s in n.body]
            ok = "had_error = True" in body and any("show_call_error" in b for b in body)
    chk.ob("R06.b", "signature::Signature.check_call_with_bound_args::evaluator-errors-reported", ok, site, "errors produced by a type evaluator must be shown and flagged")


def r06_cd(prog: Program, chk: Check) -> None:
    chk.rule("R06.c", "every bound collected for a type variable reaches the solver: the pre-pass accumulates all bounds maps in one list that is unified (never merged by dict update)", floor=2)
    cc = prog.func("signature", "Signature.check_call_with_bound_args")
    rb = calls_in(cc, "resolve_bounds_map")
    if len(rb) != 1:
        raise AnchorError("check_call_with_bound_args: resolve_bounds_map call not found")
    a0 = rb[0].args[0] if rb[0].args else None
    acc = None
    ok = isinstance(a0, ast.Call) and last_attr(a0) == "unify_bounds_maps" and len(a0.args) == 1 and isinstance(a0.args[0], ast.Name)
    if ok:
        acc = a0.args[0].id  # type: ignore[union-attr]
    chk.ob("R06.c", "signature::Signature.check_call_with_bound_args::solver-input-is-unified-list", ok, prog.site("signature", rb[0]), f"the solver is fed `{norm(a0)[:60] if a0 is not None else None}`; it must be unify_bounds_maps(<the list of all collected bounds maps>): a dict merge keeps one bound per type variable and drops the others")
    ok2 = False
    if acc is not None:
        pre = [c for c in calls_in(cc, "_check_param_type_compatibility") if c.lineno < rb[0].lineno]
        for c in pre:
            st = stmt_of(c)
            first = norm(st.targets[0].elts[0]) if isinstance(st, ast.Assign) and isinstance(st.targets[0], ast.Tuple) else None
            apps = [x for x in calls_in(cc, "append") if isinstance(x.func, ast.Attribute) and norm(x.func.value) == acc and x.args and norm(x.args[0]) == first]
            ok2 = bool(apps) and all(all((norm(g) == f"{first} is None" and not pol) or (norm(g) == f"{first} is not None" and pol) or isinstance(parent(g), (ast.For, ast.While)) or norm(g) in ("self.all_typevars",) for g, pol in guards_of(a, cc) if "typevars" not in norm(g)) for a in apps)
    chk.ob("R06.c", "signature::Signature.check_call_with_bound_args::all-bounds-accumulated", ok2, prog.site("signature", cc), "every non-None bounds map of the type-variable pre-pass must be appended to the unified list unconditionally")

    chk.rule("R06.d", "the exemption for a parameter's own ill-typed default tests identity with param.default, not equality", floor=1)
    pc = prog.func("signature", "Signature._check_param_type_compatibility")
    cmps = [n for n in walk_no_nested(pc) if isinstance(n, ast.Compare) and any("param.default" == norm(x) for x in [n.left] + list(n.comparators))]
    if not cmps:
        raise AnchorError("_check_param_type_compatibility: no comparison with param.default")
    for i, n in enumerate(cmps):
        chk.ob(
            "R06.d",
            f"signature::Signature._check_param_type_compatibility::default-identity#{i + 1}",
            all(isinstance(o, (ast.Is, ast.IsNot)) for o in n.ops),
            prog.site("signature", n),
            f"`{norm(n)}`: an explicitly passed argument that merely equals an ill-typed default would be exempted from the check",
        )


# ------------------------------------------------------------------- R06.e
def _call_chunk(args):
    part, nparts, step, objects = args
    from ..model import Program as _P
    from . import call_model as cmod

    model = cmod.CallModel(_P())
    n = 0
    classes: Dict[str, Dict[str, object]] = {}

    def fmt(ps):
        out = []
        for i, (k, d, a) in enumerate(ps):
            out.append(f"p{i}" + (f": {a}" if a else "") + (" = <default>" if d else "") + {"POSITIONAL_ONLY": " /", "KEYWORD_ONLY": " (kw-only)", "POSITIONAL_OR_KEYWORD": ""}[k])
        return "def f(" + ", ".join(out) + ")"

    def note(key: str, bad: bool, ps, pos, kw, extra) -> None:
        c = classes.setdefault(key, {"n": 0, "bad": 0, "witness": []})
        c["n"] += 1  # type: ignore[operator]
        if bad:
            c["bad"] += 1  # type: ignore[operator]
            w = c["witness"]
            w.append({"signature": fmt(ps), "call": "f(" + ", ".join([repr(x) for x in pos] + [f"{k}={v!r}" for k, v in kw.items()]) + ")", **extra})  # type: ignore[union-attr]
            w.sort(key=lambda d: (len(d["signature"]) + len(d["call"]), repr(d)))  # type: ignore[union-attr]
            del w[4:]  # type: ignore[arg-type]

    sigs = list(cmod.signatures(2))[::step]
    for idx, ps in enumerate(sigs):
        if idx % nparts != part:
            continue
        for pos, kw in cmod.calls(ps, objects):
            n += 1
            r = model.run(ps, pos, kw)
            ref = cmod.reference(ps, pos, kw)
            if r[0] == "crash":
                note("no-crash", True, ps, pos, kw, {"error": r[1]})
                continue
            note("no-crash", False, ps, pos, kw, {})
            is_err, errs, ret_ok = r
            note(f"diagnosed iff the call does not bind or an argument is outside its parameter's declared type::{ref}", is_err != (ref != "ok"), ps, pos, kw, {"diagnosed": is_err, "messages": errs, "reference": ref})
            note("the error flag and the shown messages agree", is_err != bool(errs), ps, pos, kw, {"is_error": is_err, "messages": errs})
            note("the result is the declared return type", not ret_ok, ps, pos, kw, {})
    return n, classes


def r06_e(prog: Program, chk: Check) -> None:
    import multiprocessing as mp
    import os as _os

    from . import call_model as cmod

    if _os.environ.get("VERIF_SELFTEST"):
        step, objects = 12, cmod.ARG_OBJECTS[:4]
    elif chk.tier == "thorough":
        step, objects = 1, cmod.ARG_OBJECTS
    else:
        step, objects = 3, (1, "a", 1.5, True)
    chk.rule(
        "R06.e",
        "call checking of non-generic functions as a finite model: check_call_preprocessed -> bind_arguments -> check_call_with_bound_args -> _check_param_type_compatibility -> "
        "can_assign_and_used_any -> the can_assign methods and TypeObject are interpreted from their AST (one stack, nothing stubbed below the signature) on signatures of 1-2 "
        "positional-only / positional-or-keyword / keyword-only parameters with and without defaults, annotated int / str / float / object / int|str / Literal[1] / nothing, called with "
        "literal positional and keyword arguments: the call is diagnosed exactly when it does not bind or some argument does not belong to the declared type of the parameter it binds "
        "to, a diagnosis always comes with a message, and the result is the declared return type",
        floor=5,
    )
    procs = 2 if _os.environ.get("VERIF_SELFTEST") else min(16, _os.cpu_count() or 1)
    with mp.get_context("fork").Pool(procs) as pl:
        results = pl.map(_call_chunk, [(i, procs * 3, step, objects) for i in range(procs * 3)])
    total = 0
    merged: Dict[str, Dict[str, object]] = {}
    for n, classes in results:
        total += n
        for k, c in classes.items():
            m = merged.setdefault(k, {"n": 0, "bad": 0, "witness": []})
            m["n"] += c["n"]  # type: ignore[operator]
            m["bad"] += c["bad"]  # type: ignore[operator]
            m["witness"] = sorted(list(m["witness"]) + list(c["witness"]), key=lambda d: (len(d["signature"]) + len(d["call"]), repr(d)))[:4]  # type: ignore[arg-type]
    chk.model_evaluations += total
    chk.analysed["call_model"] = {"calls": total}
    site = prog.site("signature", prog.func("signature", "Signature.check_call_with_bound_args"))
    for k, c in sorted(merged.items()):
        wit = c["witness"]
        chk.ob("R06.e", f"signature::call-model::{k}", int(c["bad"]) == 0, site,  # type: ignore[arg-type]
               f"{c['n']} calls, {c['bad']} failing" + (f"; smallest: {wit[0]}" if wit else ""), witness=wit)  # type: ignore[index]


# ------------------------------------------------------------------- R06.f
def _generic_chunk(args):
    part, nparts, max_n = args[:3]
    only_typevars = len(args) > 3 and args[3]
    import itertools as _it

    from ..model import AnchorError as _AE
    from ..model import Program as _P
    from . import call_model as cmod

    model = cmod.GenericCallModel(_P())
    objs = (1, True, "a", 1.5)
    classes: Dict[str, Dict[str, object]] = {}
    unsupported = []
    n = 0

    def note(key: str, bad: bool, d) -> None:
        c = classes.setdefault(key, {"n": 0, "bad": 0, "witness": []})
        c["n"] += 1  # type: ignore[operator]
        if bad:
            c["bad"] += 1  # type: ignore[operator]
            w = c["witness"]
            w.append(d)  # type: ignore[union-attr]
            w.sort(key=lambda x: (len(x["signature"]) + len(x["call"]), repr(x)))  # type: ignore[union-attr]
            del w[4:]  # type: ignore[arg-type]

    idx = 0
    for k in range(1, max_n + 1):
        for anns in _it.product(cmod.GENERIC_ANNOTATIONS, repeat=k):
            if not any(a in ("T", "C", "B") for a in anns) or (only_typevars and not all(a in ("T", "C", "B") for a in anns)):
                continue
            for returns_tv in (True, False):
                idx += 1
                if idx % nparts != part:
                    continue
                sig = "def f(" + ", ".join(f"p{i}: {a}" for i, a in enumerate(anns)) + ") -> " + (next(a for a in anns if a in ("T", "C", "B")) if returns_tv else "None")
                for pos in _it.product(objs, repeat=k):
                    n += 1
                    d = {"signature": sig + "   [T free, C in (int, str), B bound to int]", "call": "f(" + ", ".join(repr(x) for x in pos) + ")"}
                    try:
                        r = model.run_generic(anns, returns_tv, pos)
                    except _AE as e:
                        unsupported.append({**d, "why": str(e)[:300]})
                        continue
                    ref = cmod.generic_reference(anns, pos)
                    if isinstance(r[0], str):
                        note("no-crash", True, {**d, "error": r[1]})
                        continue
                    note("no-crash", False, d)
                    is_err, errs = r
                    rk = "returning the type variable" if returns_tv else "returning None"
                    note(f"diagnosed iff an argument is outside its declared type or no type fits a type variable::{ref}::{rk}", is_err != (ref != "ok"), {**d, "diagnosed": is_err, "messages": errs, "reference": ref})
                    note("the error flag and the shown messages agree", is_err != bool(errs), {**d, "is_error": is_err, "messages": errs})
    return n, classes, unsupported


def r06_f(prog: Program, chk: Check) -> None:
    import multiprocessing as mp
    import os as _os

    chk.rule(
        "R06.f",
        "call checking of generic functions as one interpreted stack: on top of R06.e, TypeVarValue.can_assign / make_bounds_map / get_inherent_bounds / substitute_typevars, "
        "unify_bounds_maps, resolve_bounds_map and solve (with remove_redundant_solutions) are interpreted, over real runtime objects: functions of up to 2 (thorough: 3) parameters "
        "annotated with a free type variable, one constrained to (int, str), one bound to int, or a plain class, returning the type variable or None, called with every tuple of "
        "four literals: the call is diagnosed exactly when an argument is outside its declared type or no type fits all arguments of a type variable",
        floor=6,
    )
    selftest = bool(_os.environ.get("VERIF_SELFTEST"))
    procs = 2 if selftest else min(16, _os.cpu_count() or 1)
    max_n = 3 if chk.tier == "thorough" and not selftest else 2
    with mp.get_context("fork").Pool(procs) as pl:
        results = pl.map(_generic_chunk, [(i, procs * 2, max_n) for i in range(procs * 2)])
    total = 0
    merged: Dict[str, Dict[str, object]] = {}
    unsupported = []
    for n, classes, uns in results:
        total += n
        unsupported += uns
        for k, c in classes.items():
            m = merged.setdefault(k, {"n": 0, "bad": 0, "witness": []})
            m["n"] += c["n"]  # type: ignore[operator]
            m["bad"] += c["bad"]  # type: ignore[operator]
            m["witness"] = sorted(list(m["witness"]) + list(c["witness"]), key=lambda x: (len(x["signature"]) + len(x["call"]), repr(x)))[:4]  # type: ignore[arg-type]
    chk.model_evaluations += total
    chk.analysed["generic_call_model"] = {"calls": total, "not_modelled": len(unsupported)}
    site = prog.site("signature", prog.func("signature", "Signature.check_call_with_bound_args"))
    for k, c in sorted(merged.items()):
        wit = c["witness"]
        chk.ob("R06.f", f"signature::generic-call-model::{k}", int(c["bad"]) == 0, site,  # type: ignore[arg-type]
               f"{c['n']} calls, {c['bad']} failing" + (f"; smallest: {wit[0]}" if wit else ""), witness=wit)  # type: ignore[index]
    if unsupported:
        raise AnchorError(f"{len(unsupported)} generic calls cannot be modelled; first: {unsupported[0]}")


# ------------------------------------------------------------------- R06.g
def _var_chunk(args):
    part, nparts, wide = args
    from ..model import AnchorError as _AE
    from ..model import Program as _P
    from . import call_model as cmod

    model = cmod.VarCallModel(_P())
    classes: Dict[str, Dict[str, object]] = {}
    unsupported = []
    n = 0

    def fmt(ps):
        out = []
        i = 0
        for k, d, a in ps:
            if k == cmod.VP:
                out.append(f"*args: {a}")
            elif k == cmod.VK:
                out.append(f"**kwargs: {a}")
            else:
                out.append(f"p{i}: {a}" + (" = <default>" if d else "") + {"POSITIONAL_ONLY": " /", "KEYWORD_ONLY": " (kw-only)", "POSITIONAL_OR_KEYWORD": ""}[k])
                i += 1
        return "def f(" + ", ".join(out) + ")"

    def note(key: str, bad: bool, d) -> None:
        c = classes.setdefault(key, {"n": 0, "bad": 0, "witness": []})
        c["n"] += 1  # type: ignore[operator]
        if bad:
            c["bad"] += 1  # type: ignore[operator]
            w = c["witness"]
            w.append(d)  # type: ignore[union-attr]
            w.sort(key=lambda x: (len(x["signature"]) + len(x["call"]), repr(x)))  # type: ignore[union-attr]
            del w[4:]  # type: ignore[arg-type]

    for idx, ps in enumerate(cmod.var_signatures()):
        if idx % nparts != part:
            continue
        for pos, kw_ in cmod.var_calls(ps, wide):
            n += 1
            d = {"signature": fmt(ps), "call": "f(" + ", ".join([repr(x) for x in pos] + [f"{k}={v!r}" for k, v in kw_.items()]) + ")"}
            try:
                r = model.run_var(ps, pos, kw_)
            except _AE as e:
                unsupported.append({**d, "why": str(e)[:300]})
                continue
            ref = cmod.var_reference(ps, pos, kw_)
            if isinstance(r[0], str):
                note("no-crash", True, {**d, "error": r[1]})
                continue
            note("no-crash", False, d)
            is_err, errs = r
            note(f"diagnosed iff the call does not bind or an argument (also one collected by *args / **kwargs) is outside the declared type::{ref}", is_err != (ref != "ok"), {**d, "diagnosed": is_err, "messages": errs, "reference": ref})
    return n, classes, unsupported


def r06_g(prog: Program, chk: Check) -> None:
    import multiprocessing as mp
    import os as _os

    chk.rule(
        "R06.g",
        "call checking of functions with typed *args / **kwargs as one interpreted stack: the tuple and the TypedDict that bind_arguments builds for the collected arguments are "
        "checked against tuple[T, ...] / dict[str, T] by the container model (GenericValue / SequenceValue / TypedDictValue.can_assign interpreted). 88 signatures (an optional "
        "positional-only / positional-or-keyword first parameter, *args and **kwargs annotated int / str / object, an optional keyword-only parameter) x calls with up to three "
        "positionals and two keywords, among them keywords named like the positional-only parameter and like the *args parameter: diagnosed exactly when the call does not bind or "
        "a collected argument is outside the declared element type",
        floor=3,
    )
    selftest = bool(_os.environ.get("VERIF_SELFTEST"))
    procs = 2 if selftest else min(16, _os.cpu_count() or 1)
    nparts = procs * (6 if selftest else 2)
    jobs = [(i, nparts, chk.tier == "thorough" and not selftest) for i in range(nparts)]
    if selftest:
        jobs = jobs[::3]
    with mp.get_context("fork").Pool(procs) as pl:
        results = pl.map(_var_chunk, jobs)
    total = 0
    merged: Dict[str, Dict[str, object]] = {}
    unsupported = []
    for n, classes, uns in results:
        total += n
        unsupported += uns
        for k, c in classes.items():
            m = merged.setdefault(k, {"n": 0, "bad": 0, "witness": []})
            m["n"] += c["n"]  # type: ignore[operator]
            m["bad"] += c["bad"]  # type: ignore[operator]
            m["witness"] = sorted(list(m["witness"]) + list(c["witness"]), key=lambda x: (len(x["signature"]) + len(x["call"]), repr(x)))[:4]  # type: ignore[arg-type]
    chk.model_evaluations += total
    chk.analysed["var_call_model"] = {"calls": total, "not_modelled": len(unsupported)}
    site = prog.site("signature", prog.func("signature", "Signature.bind_arguments"))
    for k, c in sorted(merged.items()):
        wit = c["witness"]
        chk.ob("R06.g", f"signature::var-call-model::{k}", int(c["bad"]) == 0, site,  # type: ignore[arg-type]
               f"{c['n']} calls, {c['bad']} failing" + (f"; smallest: {wit[0]}" if wit else ""), witness=wit)  # type: ignore[index]
    if unsupported:
        raise AnchorError(f"{len(unsupported)} calls cannot be modelled; first: {unsupported[0]}")


# ------------------------------------------------------------------- R06.h
def _generic_hierarchy():
    import typing

    T = typing.TypeVar("T")
    U = typing.TypeVar("U")
    A = typing.TypeVar("A")
    B = typing.TypeVar("B")

    class Base(typing.Generic[T]):
        tag = "base"

        def put(self, item: T) -> None: ...

        def get(self) -> T: ...  # type: ignore[empty-body]

    class Same(Base[T]):
        def own(self, item: T) -> None: ...

    class IntBase(Base[int]):
        def own(self) -> int: ...  # type: ignore[empty-body]

    class Renamed(Base[U]):
        pass

    class Pair(typing.Generic[A, B]):
        def first(self) -> A: ...  # type: ignore[empty-body]

    class Flipped(Pair[B, A]):
        def put(self, item: A) -> None: ...

    class Deep(IntBase):
        def get(self) -> int: ...  # type: ignore[empty-body]

    class Mixed(Renamed[str], Pair[int, str]):
        pass

    return [Base, Same, IntBase, Renamed, Pair, Flipped, Deep, Mixed]


def r06_h(prog: Program, chk: Check) -> None:
    from . import attribute_model as atm

    chk.rule(
        "R06.h",
        "the class that provides an inherited method is the class that defines it: attributes._get_attribute_from_mro is interpreted from its AST (the attribute model of C19 R19.6) "
        "on eight real classes of a generic hierarchy (Base[T]; Same(Base[T]); IntBase(Base[int]); Renamed(Base[U]); Pair[A, B]; Flipped(Pair[B, A]); a grandchild; a class with two "
        "generic bases) for every method and class attribute they have: the provider it returns - the key under which _substitute_typevars looks up the map from the defining class's "
        "type parameters to the receiver's type arguments - is the first class of the MRO whose __dict__ holds the name; with any other class an inherited `put(item: T)` keeps a "
        "free T on IntBase and every argument is accepted",
        floor=2,
    )
    m = atm.AttributeModel(prog)
    wrong, crashes = [], []
    n = 0
    for cls in _generic_hierarchy():
        names = sorted({k for c in cls.__mro__ if c is not object and c.__module__ != "typing" for k in vars(c) if not k.startswith("_")})
        for attr in names:
            n += 1
            want = next(c for c in cls.__mro__ if attr in vars(c))
            d = {"receiver": f"{cls.__name__}({', '.join(getattr(b, '__name__', repr(b)) for b in getattr(cls, '__orig_bases__', cls.__bases__))})", "attribute": attr, "defined in": want.__name__}
            r = m.provider(cls, attr)
            if r[0] == "crash":
                crashes.append({**d, "error": r[1]})
            elif r[0] == "missing":
                wrong.append({**d, "provider": "not found"})
            elif r[1] is not want:
                wrong.append({**d, "provider": getattr(r[1], "__name__", repr(r[1]))})
    chk.model_evaluations += n
    site = prog.site("attributes", prog.func("attributes", "_get_attribute_from_mro"))
    wrong.sort(key=lambda x: len(repr(x)))
    chk.ob("R06.h", "attributes::_get_attribute_from_mro::the provider is the defining class", not wrong, site, f"{n} (class, attribute) pairs, {len(wrong)} with another provider" + (f"; smallest: {wrong[0]}" if wrong else ""), witness=wrong[:5])
    chk.ob("R06.h", "attributes::_get_attribute_from_mro::no-crash", not crashes, site, f"{len(crashes)} crashes" + (f"; first: {crashes[0]}" if crashes else ""), witness=crashes[:3])


def run(prog: Program, chk: Check) -> None:
    guard(chk, r06_cd, prog, chk)
    guard(chk, r06_a, prog, chk)
    guard(chk, r06_b, prog, chk)
    guard(chk, r06_e, prog, chk)
    guard(chk, r06_f, prog, chk)
    guard(chk, r06_g, prog, chk)
    guard(chk, r06_h, prog, chk)
