"""C06 - call checking: error discipline of argument/parameter type checks."""

from __future__ import annotations

import ast
from typing import Dict, List, Optional, Set, Tuple

from ..model import AnchorError, Program, dotted, kw, last_attr, norm, parent, walk_no_nested
from ..report import Check
from .common import calls_in, guards_of, local_assignments, need_locals, returns_of, stmt_of


def r06_a(prog: Program, chk: Check) -> None:
    chk.rule("R06.a", "failing parameter checks are never dropped: the error path reports and returns None, both callers test for None, the flag reaches CallReturn.is_error", floor=7)
    pc = prog.func("signature", "Signature._check_param_type_compatibility")
    need_locals(pc, "bounds_map", "param_typ", "composite", "typevar_map", "ctx", "param")
    site = prog.site("signature", pc)
    # error path: on_error then return (None, ...)
    errs = [s for s in walk_no_nested(pc) if isinstance(s, ast.Expr) and isinstance(s.value, ast.Call) and norm(s.value.func) == "ctx.on_error"]
    ok = bool(errs)
    for e in errs:
        blk = parent(e).body if e in getattr(parent(e), "body", []) else parent(e).orelse  # type: ignore[union-attr]
        nxt = blk[blk.index(e) + 1] if blk.index(e) + 1 < len(blk) else None
        ok = ok and isinstance(nxt, ast.Return) and isinstance(nxt.value, ast.Tuple) and isinstance(nxt.value.elts[0], ast.Constant) and nxt.value.elts[0].value is None
        ok = ok and any(pol and "isinstance(bounds_map, CanAssignError)" in norm(g) for g, pol in guards_of(e, pc))
    chk.ob("R06.a", "signature::Signature._check_param_type_compatibility::error-path", ok, site, "an incompatible argument must be reported through ctx.on_error and signalled by returning None as the bounds map")
    code = [k for e in errs for k in e.value.keywords if k.arg == "code"]
    chk.ob("R06.a", "signature::Signature._check_param_type_compatibility::error-code", bool(code) and all("ErrorCode.incompatible_argument" in norm(k.value) for k in code), site, "the reported code must default to incompatible_argument")
    # the substituted type is what is checked
    t = norm(pc)
    chk.ob("R06.a", "signature::Signature._check_param_type_compatibility::substituted-type", "param_typ = param.annotation.substitute_typevars(typevar_map)" in t and "can_assign_and_used_any(param_typ, composite.value" in t, site, "the argument must be checked against the parameter type with the solved type variables substituted")
    cc = prog.func("signature", "Signature.check_call_with_bound_args")
    need_locals(cc, "had_error", "errors", "bound_args", "typevar_values")
    sites = calls_in(cc, "_check_param_type_compatibility")
    if len(sites) != 2:
        raise AnchorError("check_call_with_bound_args: expected 2 calls of _check_param_type_compatibility")
    for i, c in enumerate(sorted(sites, key=lambda c: c.lineno)):
        st = stmt_of(c)
        first = None
        if isinstance(st, ast.Assign) and isinstance(st.targets[0], ast.Tuple):
            first = norm(st.targets[0].elts[0])
        tested = None
        for n in walk_no_nested(cc):
            if isinstance(n, ast.If) and first and norm(n.test) == f"{first} is None" and n.lineno > st.lineno:
                tested = n
                break
        ok = tested is not None
        how = ""
        if tested is not None:
            body = [norm(s) for s in tested.body]
            if any(b == "return self.get_default_return()" for b in body):
                how = "returns the default (error) return"
            elif any(b == "had_error = True" for b in body):
                how = "sets had_error"
            else:
                ok = False
        chk.ob(
            "R06.a",
            f"signature::Signature.check_call_with_bound_args::none-tested#{i + 1}",
            ok,
            prog.site("signature", c),
            f"the bounds map returned by _check_param_type_compatibility must be tested for None and mapped to an error ({how or 'not found'})",
        )
    cr = [c for c in calls_in(cc, "CallReturn")]
    ok = bool(cr) and all(kw(c, "is_error") is not None and norm(kw(c, "is_error")) == "had_error" for c in cr)
    chk.ob("R06.a", "signature::Signature.check_call_with_bound_args::flag-reaches-result", ok, prog.site("signature", cc), "had_error must be passed as CallReturn.is_error")
    gd = prog.func("signature", "Signature.get_default_return")
    ok = any(kw(c, "is_error") is not None and norm(kw(c, "is_error")) == "True" for c in calls_in(gd, "CallReturn"))
    chk.ob("R06.a", "signature::Signature.get_default_return::is-error", ok, prog.site("signature", gd), "the default return must be flagged is_error=True")
    # typevar resolution errors
    ok = False
    for n in walk_no_nested(cc):
        if isinstance(n, ast.If) and norm(n.test) == "errors":
            body = [norm(s) for s in n.body]
            ok = any("show_call_error" in b for b in body) and body[-1] == "return self.get_default_return()"
    chk.ob("R06.a", "signature::Signature.check_call_with_bound_args::typevar-errors", ok, prog.site("signature", cc), "unsolvable type variables must be reported and end in the default (error) return")


def r06_b(prog: Program, chk: Check) -> None:
    chk.rule("R06.b", "every bound argument is checked against the substituted parameter type; impl and evaluator never see ill-typed arguments", floor=4)
    cc = prog.func("signature", "Signature.check_call_with_bound_args")
    site = prog.site("signature", cc)
    loop = None
    for n in walk_no_nested(cc):
        if isinstance(n, ast.For) and norm(n.iter) == "bound_args.items()" and any(last_attr(c) == "_check_param_type_compatibility" for c in calls_in(n)):
            loop = n
    if loop is None:
        raise AnchorError("check_call_with_bound_args: main loop over bound_args.items() not found")
    call = [c for c in calls_in(loop, "_check_param_type_compatibility")][0]
    before = [s for s in loop.body if s.lineno < call.lineno]
    skips = [x for s in before for x in ast.walk(s) if isinstance(x, (ast.Continue, ast.Break))]
    chk.ob("R06.b", "signature::Signature.check_call_with_bound_args::all-arguments-checked", not skips, site, "no bound argument may be skipped before its type check")
    args = [norm(a) for a in call.args]
    chk.ob("R06.b", "signature::Signature.check_call_with_bound_args::solved-typevars-passed", "typevar_values" in args, site, "the main pass must check against the solved type variables (typevar_values)")
    impl_calls = [c for c in calls_in(cc) if norm(c.func) == "self.impl"]
    ev_calls = [c for c in calls_in(cc) if norm(c.func) == "self.evaluator.evaluate"]
    for name, cs in (("impl", impl_calls), ("evaluator", ev_calls)):
        ok = bool(cs) and all(any(pol and norm(g) == "not had_error" for g, pol in guards_of(c, cc)) for c in cs)
        chk.ob("R06.b", f"signature::Signature.check_call_with_bound_args::{name}-skipped-on-error", ok, site, f"the {name} must only run when no argument check failed")
    # errors raised by the evaluator become call errors and set the flag
    ok = False
    for n in walk_no_nested(cc):
        if isinstance(n, ast.For) and norm(n.iter) == "errors":
            body = [norm(s) for s in n.body]
            ok = "had_error = True" in body and any("show_call_error" in b for b in body)
    chk.ob("R06.b", "signature::Signature.check_call_with_bound_args::evaluator-errors-reported", ok, site, "errors produced by a type evaluator must be shown and flagged")


def run(prog: Program, chk: Check) -> None:
    r06_a(prog, chk)
    r06_b(prog, chk)
