"""C11 - suppression and enabling are a pure projection of the diagnostics.

All rules are on BaseNodeVisitor.show_error and its collaborators.
"""

from __future__ import annotations

import ast
from typing import Dict, List, Optional, Set, Tuple

from ..cfg import CFG
from ..model import AnchorError, Program, dotted, last_attr, norm, parent, walk_no_nested
from ..report import Check, guard
from .common import calls_in, guards_of, local_assignments, need_locals, stmt_of


def _mentions(e: ast.AST, text: str) -> bool:
    return text in norm(e)


def _enabled_tainted_names(fn: ast.FunctionDef) -> Set[str]:
    out: Set[str] = set()
    for _ in range(3):
        for n in walk_no_nested(fn):
            if isinstance(n, ast.Assign) and len(n.targets) == 1 and isinstance(n.targets[0], ast.Name):
                v = n.value
                if "is_enabled(" in norm(v) or "settings" in norm(v) or any(isinstance(x, ast.Name) and x.id in out for x in ast.walk(v)):
                    out.add(n.targets[0].id)
    return out


def _enabled_gates(fn: ast.FunctionDef) -> List[ast.If]:
    """If statements whose test depends on the enabled state and whose body returns."""
    tainted = _enabled_tainted_names(fn)
    out = []
    for n in walk_no_nested(fn):
        if isinstance(n, ast.If):
            t = n.test
            dep = "is_enabled(" in norm(t) or any(isinstance(x, ast.Name) and x.id in tainted for x in ast.walk(t))
            if dep and n.body and isinstance(n.body[-1], ast.Return):
                out.append(n)
    return out


EMISSION = {
    "had_failure": "self.had_failure = True",
    "all_failures": "self.all_failures.append(...)",
    "stderr": "sys.stderr.write(...)",
    "changes_for_fixer": "self._changes_for_fixer[...].append(...)",
}


def _emission_stmts(fn: ast.FunctionDef) -> Dict[str, List[ast.stmt]]:
    out: Dict[str, List[ast.stmt]] = {k: [] for k in EMISSION}
    for n in walk_no_nested(fn):
        if isinstance(n, ast.Assign) and any(norm(t) == "self.had_failure" for t in n.targets):
            out["had_failure"].append(n)
        if isinstance(n, ast.Expr) and isinstance(n.value, ast.Call):
            c = n.value
            t = norm(c.func)
            if t == "self.all_failures.append":
                out["all_failures"].append(n)
            elif t == "sys.stderr.write":
                out["stderr"].append(n)
            elif t.startswith("self._changes_for_fixer[") and t.endswith(".append"):
                out["changes_for_fixer"].append(n)
    return out


def _accounting_stmts(fn: ast.FunctionDef) -> List[Tuple[str, ast.stmt]]:
    out = []
    for n in walk_no_nested(fn):
        if isinstance(n, ast.Expr) and isinstance(n.value, ast.Call) and norm(n.value.func) == "self.used_ignores.add":
            out.append((f"used_ignores.add({norm(n.value.args[0])})", n))
        if isinstance(n, ast.If) and "has_file_level_ignore(" in norm(n.test):
            out.append(("has_file_level_ignore(...)", n))
    return out


def r11_1(prog: Program, chk: Check) -> None:
    chk.rule(
        "R11.1",
        "show_error: (a) a test of the enabled state whose disabled branch returns dominates every emission "
        "effect; (b) no such test dominates the ignore accounting (used_ignores / file-level ignore), so the "
        "enabled state cannot turn a used ignore comment into an unused one",
        floor=6,
    )
    fn = prog.func("node_visitor", "BaseNodeVisitor.show_error")
    g = CFG(fn)
    gates = _enabled_gates(fn)
    site = prog.site("node_visitor", fn)
    chk.ob("R11.1", "node_visitor::BaseNodeVisitor.show_error::enabled-gate-exists", bool(gates), site, "no `if <enabled state>: return` in show_error: disabled codes are emitted")
    em = _emission_stmts(fn)
    for kind, stmts in em.items():
        if not stmts:
            if kind in ("had_failure", "all_failures", "stderr"):
                raise AnchorError(f"show_error: emission effect {EMISSION[kind]} not found")
            continue
        for i, st in enumerate(stmts):
            ok = any(g.dominates(gt, st) for gt in gates)
            chk.ob(
                "R11.1",
                f"node_visitor::BaseNodeVisitor.show_error::gate-dominates::{kind}" + (f"#{i + 1}" if len(stmts) > 1 else ""),
                ok,
                prog.site("node_visitor", st),
                f"{EMISSION[kind]} is reachable without passing the enabled-state test: a disabled code still produces this effect",
            )
    acc = _accounting_stmts(fn)
    if len(acc) < 3:
        raise AnchorError("show_error: fewer than 3 ignore-accounting statements found")
    for desc, st in acc:
        doms = [gt for gt in gates if g.dominates(gt, st)]
        chk.ob(
            "R11.1",
            f"node_visitor::BaseNodeVisitor.show_error::accounting-not-gated::{desc}",
            not doms,
            prog.site("node_visitor", st),
            f"{desc} runs only for enabled codes (gated by the test at line {doms[0].lineno if doms else '?'}): disabling a code "
            "turns the ignore comments that suppressed it into unused_ignore errors",
        )
    # the buffering arm must be first and must not account / emit
    first = [s for s in fn.body if not (isinstance(s, ast.Expr) and isinstance(s.value, ast.Constant))][0]
    ok = isinstance(first, ast.If) and "caught_errors" in norm(first.test) and isinstance(first.body[-1], ast.Return)
    chk.ob("R11.1", "node_visitor::BaseNodeVisitor.show_error::buffering-arm-first", ok, prog.site("node_visitor", first), "the caught_errors buffering arm must come first and return")


def _guard_names(prog: Program) -> None:
    need_locals(prog.func("node_visitor", "BaseNodeVisitor.show_error"), "lines", "lineno", "ignore_comment", "error_code")


def _line_tables(fn: ast.FunctionDef) -> Set[str]:
    """Locals that hold one entry per source line: assigned from self._lines() or self._comments()."""
    out = set()
    for n in walk_no_nested(fn):
        if isinstance(n, ast.Assign) and len(n.targets) == 1 and isinstance(n.targets[0], ast.Name) and isinstance(n.value, ast.Call) and norm(n.value.func) in ("self._lines", "self._comments"):
            out.add(n.targets[0].id)
    return out or {"lines"}


def _ignore_return_ifs(fn: ast.FunctionDef) -> List[Tuple[ast.If, str, Optional[str]]]:
    """`if <test>: self.used_ignores.add(IDX); return` inside show_error ->
    (if, IDX text, name of the local that holds the matched line)."""
    out = []
    tables = _line_tables(fn)
    for n in walk_no_nested(fn):
        if not isinstance(n, ast.If) or not n.body or not isinstance(n.body[-1], ast.Return):
            continue
        adds = [s for s in n.body if isinstance(s, ast.Expr) and isinstance(s.value, ast.Call) and norm(s.value.func) == "self.used_ignores.add"]
        if not adds:
            continue
        idx = norm(adds[0].value.args[0])
        # the local whose defining expression reads lines[IDX] and that the test (or a
        # local feeding the test) mentions
        line_var = None
        names_in_test = {x.id for x in ast.walk(n.test) if isinstance(x, ast.Name)}
        frontier = set(names_in_test)
        for _ in range(3):
            for nm in list(frontier):
                for a in local_assignments(fn, nm):
                    for x in ast.walk(a):
                        if isinstance(x, ast.Name):
                            frontier.add(x.id)
        for nm in sorted(frontier):
            for a in local_assignments(fn, nm):
                if any(isinstance(sx, ast.Subscript) and norm(sx.value) in tables for sx in ast.walk(a)):
                    line_var = line_var or nm
        out.append((n, idx, line_var))
    return out


def r11_2(prog: Program, chk: Check) -> None:
    chk.rule(
        "R11.2",
        "every early return caused by an ignore comment is immediately preceded by used_ignores.add(i) with "
        "i the index of the line that was matched",
        floor=3,
    )
    fn = prog.func("node_visitor", "BaseNodeVisitor.show_error")
    found = _ignore_return_ifs(fn)
    if len(found) < 2:
        raise AnchorError("show_error: fewer than 2 `used_ignores.add(...); return` arms found")
    for n, idx_used, lv in found:
        idx_read = None
        if lv is not None:
            for a in local_assignments(fn, lv):
                for sx in ast.walk(a):
                    if isinstance(sx, ast.Subscript) and norm(sx.value) in _line_tables(fn):
                        idx_read = norm(sx.slice)
        ok = len(n.body) == 2 and idx_read is not None and idx_used == idx_read
        chk.ob(
            "R11.2",
            f"node_visitor::BaseNodeVisitor.show_error::ignore-return::lines[{idx_read}]",
            ok,
            prog.site("node_visitor", n),
            f"suppression decided on lines[{idx_read}] must be `self.used_ignores.add({idx_read}); return` and nothing else (found add({idx_used}))",
        )
    hf = prog.func("node_visitor", "BaseNodeVisitor.has_file_level_ignore")
    loops = [n for n in walk_no_nested(hf) if isinstance(n, ast.For)]
    ok = False
    why = "no `for i, line in enumerate(self._lines())` loop"
    for lp in loops:
        if norm(lp.iter) == "enumerate(self._lines())" and isinstance(lp.target, ast.Tuple):
            ivar = norm(lp.target.elts[0])
            for n in ast.walk(lp):
                if isinstance(n, ast.Return) and isinstance(n.value, ast.Constant) and n.value.value is True:
                    blk = parent(n).body  # type: ignore[union-attr]
                    i = blk.index(n)
                    prev = blk[i - 1] if i > 0 else None
                    ok = (
                        prev is not None
                        and isinstance(prev, ast.Expr)
                        and isinstance(prev.value, ast.Call)
                        and norm(prev.value.func) == "self.used_ignores.add"
                        and norm(prev.value.args[0]) == ivar
                    )
                    why = "return True in the file-level scan is not preceded by used_ignores.add(<loop index>)"
            # the scan must stop at the first non-comment line
            firsts = [s for s in lp.body if isinstance(s, ast.If) and "startswith('#')" in norm(s.test)]
            if not firsts or not isinstance(firsts[0].body[-1], ast.Return):
                ok = False
                why = "file-level scan does not stop at the first non-comment line"
    chk.ob("R11.2", "node_visitor::BaseNodeVisitor.has_file_level_ignore::accounting", ok, prog.site("node_visitor", hf), why)
    # unused = comment present and index not used
    gu = prog.func("node_visitor", "BaseNodeVisitor.get_unused_ignores")
    t = norm(gu)
    chk.ob(
        "R11.2",
        "node_visitor::BaseNodeVisitor.get_unused_ignores::definition",
        "IGNORE_COMMENT in " in t and "i not in self.used_ignores" in t and "enumerate(self._lines())" in t,
        prog.site("node_visitor", gu),
        "unused ignores must be exactly the lines containing the comment whose index is not in used_ignores",
    )


def r11_3(prog: Program, chk: Check) -> None:
    chk.rule("R11.3", "neighbour-line subscripts lines[lineno - k], k >= 2, are guarded by lineno >= k", floor=2)
    fn = prog.func("node_visitor", "BaseNodeVisitor.show_error")
    n = 0
    for s in walk_no_nested(fn):
        # any per-line table (the lines, their comments) indexed relative to the diagnostic's line
        if isinstance(s, ast.Subscript) and isinstance(s.value, ast.Name) and isinstance(s.slice, ast.BinOp) and isinstance(s.slice.op, ast.Sub):
            if norm(s.slice.left) != "lineno" or not isinstance(s.slice.right, ast.Constant):
                continue
            k = s.slice.right.value
            n += 1
            ok = True
            if k >= 2:
                ok = False
                for gt, pol in guards_of(s, fn):
                    t = norm(gt)
                    if pol and t in (f"lineno >= {k}", f"lineno > {k - 1}", f"{k} <= lineno", f"{k - 1} < lineno"):
                        ok = True
                    # conjunctions
                    if pol and isinstance(gt, ast.BoolOp) and isinstance(gt.op, ast.And):
                        for v in gt.values:
                            if norm(v) in (f"lineno >= {k}", f"lineno > {k - 1}"):
                                ok = True
            chk.ob(
                "R11.3",
                f"node_visitor::BaseNodeVisitor.show_error::{norm(s.value)}[lineno-{k}]",
                ok,
                prog.site("node_visitor", s),
                f"{norm(s.value)}[lineno - {k}] without a `lineno >= {k}` guard: for lineno < {k} the index is negative and wraps to the end of the file",
            )
    if n < 2:
        raise AnchorError("show_error: neighbour-line subscripts not found")


def r11_4(prog: Program, chk: Check) -> None:
    chk.rule("R11.4", "all_failures has a single writer: show_error (or the non-None result of a show_error call)", floor=1)
    n = 0
    for mod in prog.modules.values():
        for c in calls_in(mod.tree, "append"):
            # the per-visitor list `<obj>.all_failures`; local aggregation lists in the
            # file-level drivers (which concatenate finished per-file lists) are not writers
            if not (isinstance(c.func, ast.Attribute) and isinstance(c.func.value, ast.Attribute) and c.func.value.attr == "all_failures"):
                continue
            n += 1
            q = prog.qualname_of(mod, c)
            ok = q.endswith("show_error")
            if not ok and c.args and isinstance(c.args[0], ast.Name):
                f = c
                while f is not None and not isinstance(f, (ast.FunctionDef, ast.AsyncFunctionDef)):
                    f = parent(f)
                if f is not None:
                    srcs = local_assignments(f, c.args[0].id)
                    ok = bool(srcs) and all(isinstance(s, ast.Call) and last_attr(s) in ("show_error", "_show_error_if_checking") for s in srcs)
            chk.ob(
                "R11.4",
                f"{mod.name}::{q}::all_failures.append",
                ok,
                prog.site(mod, c),
                "failure appended to all_failures without passing the show_error filter (enable / ignore / duplicate checks)",
            )
    if n == 0:
        raise AnchorError("no all_failures.append found")


# reads of the enabled state outside show_error / is_enabled.
# (module, qualname, code) -> (status, reason)
R115_SITES: Dict[Tuple[str, str, str], Tuple[str, str]] = {
    ("name_check_visitor", "NameCheckVisitor._get_potential_function", "suggested_parameter_type"): (
        "ok",
        "feeds callable_tracker only; its diagnostics are emitted in perform_final_checks after ignore accounting",
    ),
    ("name_check_visitor", "NameCheckVisitor.record_call", "suggested_parameter_type"): (
        "ok",
        "feeds callable_tracker only (same as above)",
    ),
    ("name_check_visitor", "NameCheckVisitor._run_on_files", "attribute_is_never_set"): (
        "ok",
        "decides whether the ClassAttributeChecker exists; its diagnostics are emitted after all files are checked",
    ),
    ("name_check_visitor", "NameCheckVisitor.__init__", "implicit_any"): (
        "finding",
        "guards the implicit_any emission in visit(): with the code disabled show_error is never reached, so an "
        "ignore[implicit_any] comment is reported as unused",
    ),
}


def r11_5(prog: Program, chk: Check) -> None:
    chk.rule(
        "R11.5",
        "the enabled state is not an analysis input: every read outside show_error is classified; a read that "
        "decides whether show_error is reached changes ignore accounting",
        floor=4,
    )
    seen: Set[Tuple[str, str, str]] = set()
    for mod in prog.modules.values():
        for c in calls_in(mod.tree):
            nm = last_attr(c)
            if nm not in ("is_error_code_enabled", "is_error_code_enabled_anywhere", "is_enabled"):
                continue
            q = prog.qualname_of(mod, c)
            if q.endswith(".show_error") or q.endswith(".is_enabled") or q.endswith("is_error_code_enabled") or q.endswith("is_error_code_enabled_anywhere"):
                continue
            code = "?"
            for a in c.args:
                d = dotted(a)
                if d and d.startswith("ErrorCode."):
                    code = d.split(".")[1]
            key = (mod.name, q, code)
            seen.add(key)
            status, reason = R115_SITES.get(key, ("unclassified", "new read of the enabled state outside show_error"))
            chk.ob(
                "R11.5",
                f"{mod.name}::{q}::enabled-read::{code}",
                status == "ok",
                prog.site(mod, c),
                reason,
            )
    for key in R115_SITES:
        if key not in seen:
            chk.notes.append(f"R11.5 table entry no longer matches a site: {key}")


def r11_6(prog: Program, chk: Check) -> None:
    chk.rule("R11.6", "code-specific ignore comments compare the code name; the bare form excludes the bracket form", floor=4)
    fn = prog.func("node_visitor", "BaseNodeVisitor.show_error")
    for n, idx_used, lv in _ignore_return_ifs(fn):
        # the test, together with the locals that feed it
        texts = [norm(n.test)]
        for nm in {x.id for x in ast.walk(n.test) if isinstance(x, ast.Name)}:
            texts += [norm(a) for a in local_assignments(fn, nm)]
        t = " ; ".join(texts)
        chk.ob(
            "R11.6",
            f"node_visitor::BaseNodeVisitor.show_error::lines[{idx_used}]::code-form",
            "error_code.name" in t and "error_code is not None" in t,
            prog.site("node_visitor", n),
            "the code-specific form must compare `[error_code.name]` under `error_code is not None`",
        )
        own_line = idx_used.replace(" ", "") == "lineno-1"
        if own_line:
            # several comments may trail one line: the code-specific form must look at the whole
            # line (substring test / pattern containing the code), not at the first regex match only
            first_match_only = ".group(" in t and "error_code.name" in t and not any(
                isinstance(c, ast.Compare) and any(isinstance(o, ast.In) for o in c.ops) and "error_code.name" in norm(c.left)
                for c in ast.walk(n.test)
            )
            chk.ob(
                "R11.6",
                f"node_visitor::BaseNodeVisitor.show_error::lines[{idx_used}]::code-form-scans-whole-line",
                not first_match_only,
                prog.site("node_visitor", n),
                "the code-specific trailing form compares one regex match group with the code: only the first ignore comment on the line is honoured, "
                "a second comment naming the code no longer suppresses it (and is reported as unused)",
            )
        if own_line:
            bare_ok = "(?!\\\\[)" in t or "(?!\\[)" in t or "group(1) is None" in t
        else:
            bare_ok = "== ignore_comment" in t
        chk.ob(
            "R11.6",
            f"node_visitor::BaseNodeVisitor.show_error::lines[{idx_used}]::bare-form",
            bare_ok,
            prog.site("node_visitor", n),
            "the bare form must not match a comment that names a different code",
        )
    hf = prog.func("node_visitor", "BaseNodeVisitor.has_file_level_ignore")
    t = norm(hf)
    chk.ob(
        "R11.6",
        "node_visitor::BaseNodeVisitor.has_file_level_ignore::forms",
        "line.strip() == ignore_comment" in t and "[{error_code.name}]" in t,
        prog.site("node_visitor", hf),
        "file-level ignore must accept exactly the bare comment or the comment naming this code",
    )


# ------------------------------------------------------------------- R11.7
def _filter_files(max_lines: int):
    import itertools

    from . import filter_model as flt

    kinds = [k for k in flt.LINE_KINDS if k != "blank"]
    small = ["code", "code+bare", "code+A", "code+B+A", "own-bare", "own-A"]
    for n in range(1, max_lines + 1):
        pool = kinds if n <= 2 else small
        for combo in itertools.product(pool, repeat=n):
            yield [flt.LINE_KINDS[k] for k in combo], combo
    # stacked and interrupted own-line comments (always included)
    for combo in (
        ("own-A", "comment", "code"), ("own-B", "own-A", "code"), ("own-A", "own-B", "code"), ("own-bare", "own-A", "code"),
        ("code+A", "own-B", "code"), ("comment", "own-A", "code"), ("code", "own-A", "code+B"), ("code", "own-A", "own-B", "code"),
        ("code", "own-A", "comment", "own-B", "code"), ("code", "own-A-indented", "own-B", "indented-code"),
        # a blank line ends the leading comment block: what follows is no file-level ignore
        ("comment", "blank", "own-A", "code", "code"), ("blank", "own-bare", "code", "code"), ("comment", "blank", "own-bare", "code", "code+A"),
        ("own-A", "blank", "code", "code"),
    ):
        yield [flt.LINE_KINDS[k] for k in combo], combo


def _filter_chunk(args):
    part, nparts, max_lines = args
    import itertools

    from ..model import Program as _P
    from . import filter_model as flt

    model = flt.FilterModel(_P())
    n = 0
    classes: Dict[str, Dict[str, object]] = {}

    def note(key: str, bad: bool, detail) -> None:
        c = classes.setdefault(key, {"n": 0, "bad": 0, "witness": []})
        c["n"] += 1  # type: ignore[operator]
        if bad:
            c["bad"] += 1  # type: ignore[operator]
            w = c["witness"]
            w.append(detail)  # type: ignore[union-attr]
            w.sort(key=lambda d: (len(d["file"]), len(d["diagnostics"]), repr(d)))  # type: ignore[union-attr]
            del w[4:]  # type: ignore[arg-type]

    subsets = [frozenset(x) for x in ((), ("A",), ("B",), ("A", "B"))]
    for idx, (lines, kinds) in enumerate(_filter_files(max_lines)):
        if idx % nparts != part:
            continue
        positions = [(ln, c) for ln in range(1, len(lines) + 1) for c in flt.CODES]
        seqs = [()] + [(p,) for p in positions] + list(itertools.product(positions, repeat=2))
        for diags in seqs:
            used_by_enabled = []
            for en in subsets:
                n += 1
                rep, used, _reps, unused = model.run_fresh(lines, diags, en)
                d = {"file": list(kinds), "diagnostics": list(diags), "enabled": sorted(en)}
                if isinstance(rep, tuple) and rep and rep[0] == "crash":
                    note("no-crash", True, {**d, "error": rep[1]})
                    continue
                note("no-crash", False, d)
                want_rep, want_used = flt.reference(lines, diags, en)
                note("reported = enabled and not suppressed (documented ignore forms)", rep != want_rep, {**d, "reported": rep, "documented": want_rep})
                note("used ignore comments = comments that suppressed something", used != want_used, {**d, "used": sorted(used), "documented": sorted(want_used)})
                want_unused = [i for i, l in enumerate(lines) if flt.IC in flt.comment_of(l) and i not in want_used]
                note("unused ignore comments = the other ignore comments", sorted(unused) != want_unused, {**d, "unused": sorted(unused), "documented": want_unused})
                used_by_enabled.append(frozenset(used))
            note("ignore accounting does not depend on which codes are enabled", len(set(used_by_enabled)) > 1, {"file": list(kinds), "diagnostics": list(diags), "used_per_enabled_set": [sorted(u) for u in used_by_enabled]})
    return n, classes


def r11_7(prog: Program, chk: Check) -> None:
    import multiprocessing as mp
    import os as _os

    max_lines = 2 if _os.environ.get("VERIF_SELFTEST") else 3
    chk.rule(
        "R11.7",
        "the diagnostic filter as a finite model: show_error, has_file_level_ignore, _lines, is_enabled and get_unused_ignores are interpreted from their AST on every file of up to "
        f"{max_lines} lines drawn from 15 line kinds (code, trailing bare / [A] / [B] / two comments, own-line bare / [A] / indented, plain comment, blank, a form feed - white space for the parser, not a line end -, the ignore text inside a string literal - not a comment), every sequence of up to 2 raw "
        "diagnostics (line x code, duplicates included) and every set of enabled codes: the reported diagnostics are exactly the enabled ones not suppressed by a documented ignore form, "
        "the used / unused ignore comments are those that did / did not suppress something, and neither depends on which codes are enabled",
        floor=5,
    )
    procs = 2 if _os.environ.get("VERIF_SELFTEST") else min(16, _os.cpu_count() or 1)
    tasks = [(i, procs * 3, max_lines) for i in range(procs * 3)]
    with mp.get_context("fork").Pool(procs) as pl:
        results = pl.map(_filter_chunk, tasks)
    total = 0
    merged: Dict[str, Dict[str, object]] = {}
    for n, classes in results:
        total += n
        for k, c in classes.items():
            m = merged.setdefault(k, {"n": 0, "bad": 0, "witness": []})
            m["n"] += c["n"]  # type: ignore[operator]
            m["bad"] += c["bad"]  # type: ignore[operator]
            m["witness"] = sorted(list(m["witness"]) + list(c["witness"]), key=lambda d: (len(d["file"]), len(d["diagnostics"]), repr(d)))[:4]  # type: ignore[arg-type]
    chk.model_evaluations += total
    chk.analysed["filter_model"] = {"runs": total, "max_lines": max_lines}
    site = prog.site("node_visitor", prog.func("node_visitor", "BaseNodeVisitor.show_error"))
    for k, c in sorted(merged.items()):
        wit = c["witness"]
        chk.ob("R11.7", f"node_visitor::filter-model::{k}", int(c["bad"]) == 0, site,  # type: ignore[arg-type]
               f"{c['n']} cases, {c['bad']} failing" + (f"; smallest: {wit[0]}" if wit else ""), witness=wit)  # type: ignore[index]


# ------------------------------------------------------------------- R11.8
def _enabled_chunk(args):
    part, nparts = args
    import itertools as _it

    from ..model import Program as _P
    from . import config_model as cfgm
    from .c18 import _config_stacks

    model = cfgm.ConfigModel(_P())
    n = 0
    bad = []
    mods = [(), ("a",), ("a", "b"), ("ab",)]
    for idx, (files, cmd, name, default, is_list) in enumerate(_config_stacks("disable_all", False)):
        if idx % nparts != part:
            continue
        for m1, m2 in _it.permutations(mods, 2):
            queries = [(name, m1), (name, m2), (name, m1)]
            got = model.effective(files, cmd, queries, enabled_queries=True)
            n += 3
            for qi, (nm, mod) in enumerate(queries):
                want = cfgm.reference(files, cmd, nm, mod, default, False)
                g = got.get((qi, nm, mod)) if isinstance(got, dict) else got
                if g != want:
                    bad.append((len(repr(files)), {"files": files, "error_code": nm, "modules_asked_in_order": [".".join(q[1]) or "<top>" for q in queries], "asked": ".".join(mod) or "<top>", "answer": g, "configured": want}))
                    break
    bad.sort(key=lambda t: t[0])
    return n, len(bad), [b for _, b in bad[:4]]


def r11_8(prog: Program, chk: Check) -> None:
    import multiprocessing as mp
    import os as _os

    chk.rule(
        "R11.8",
        "whether an error code is enabled for a module is a function of the configuration alone: Options.from_option_list, for_module and is_error_code_enabled (with the option "
        "machinery of the C18 model) are interpreted on configuration stacks with disable_all / per-code settings at the top level, in a module override and in an extended file; "
        "the question is asked for pairs of modules in both orders on views of one Options object (as one checker run does for the files it checks) and every answer equals the "
        "layered configuration, whatever was asked before",
        floor=1,
    )
    procs = 2 if _os.environ.get("VERIF_SELFTEST") else min(16, _os.cpu_count() or 1)
    with mp.get_context("fork").Pool(procs) as pl:
        results = pl.map(_enabled_chunk, [(i, procs * 2) for i in range(procs * 2)])
    n = sum(r[0] for r in results)
    nbad = sum(r[1] for r in results)
    wit = [w for r in results for w in r[2]][:4]
    chk.model_evaluations += n
    chk.analysed["enabled_model"] = {"questions": n}
    site = prog.site("options", prog.func("options", "Options.is_error_code_enabled"))
    chk.ob("R11.8", "options::enabled-model::answer-depends-on-the-configuration-only", nbad == 0, site,
           f"{n} questions, {nbad} sequences with an answer that differs from the layered configuration" + (f"; smallest: {wit[0]}" if wit else ""), witness=wit)


def run(prog: Program, chk: Check) -> None:
    _guard_names(prog)
    guard(chk, r11_1, prog, chk)
    guard(chk, r11_2, prog, chk)
    guard(chk, r11_3, prog, chk)
    guard(chk, r11_4, prog, chk)
    guard(chk, r11_5, prog, chk)
    guard(chk, r11_6, prog, chk)
    guard(chk, r11_7, prog, chk)
    guard(chk, r11_8, prog, chk)