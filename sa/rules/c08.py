"""C08 - overload resolution: declared order, first clean match, diagnose-on-none, Any accounting."""

from __future__ import annotations

import ast
from typing import Dict, List, Optional, Set, Tuple

from ..cfg import CFG
from ..model import AnchorError, Program, dotted, kw, last_attr, norm, parent, walk_no_nested
from ..report import Check, guard
from .common import calls_in, guards_of, local_assignments, need_locals, returns_of

ORDER_PRESERVING_CALLS = {"enumerate", "zip", "list", "tuple", "iter"}
ORDER_BREAKING_CALLS = {"set", "frozenset", "sorted", "reversed", "shuffle"}


def order_preserving(fn: ast.AST, e: ast.AST, depth: int = 0) -> Tuple[bool, str]:
    """Is `e` derived from self.signatures only through order-preserving steps?"""
    if depth > 6:
        return False, "provenance too deep"
    if isinstance(e, ast.Attribute):
        return (norm(e) == "self.signatures", norm(e))
    if isinstance(e, ast.Name):
        srcs = local_assignments(fn, e.id)
        if not srcs:
            return False, f"{e.id} has no local definition"
        for s in srcs:
            ok, why = order_preserving(fn, s, depth + 1)
            if not ok:
                return False, f"{e.id} <- {why}"
        return True, e.id
    if isinstance(e, ast.Call):
        nm = last_attr(e)
        if nm in ORDER_BREAKING_CALLS:
            return False, f"{nm}(...) does not keep the declared order"
        if nm in ORDER_PRESERVING_CALLS and isinstance(e.func, ast.Name):
            oks = [order_preserving(fn, a, depth + 1) for a in e.args]
            good = [o for o in oks if o[0]]
            return (bool(good), "; ".join(o[1] for o in oks))
        return False, f"opaque call {nm}"
    if isinstance(e, (ast.ListComp, ast.GeneratorExp)):
        if len(e.generators) != 1:
            return False, "nested comprehension"
        return order_preserving(fn, e.generators[0].iter, depth + 1)
    if isinstance(e, (ast.SetComp, ast.Set)):
        return False, "set"
    if isinstance(e, ast.Subscript):
        return order_preserving(fn, e.value, depth + 1)
    return False, type(e).__name__


def r08_a(prog: Program, chk: Check) -> None:
    chk.rule("R08.a", "declared order: every loop of overload resolution iterates self.signatures through order-preserving steps only", floor=2)
    fn = prog.func("signature", "OverloadedSignature.check_call")
    n = 0
    for lp in walk_no_nested(fn):
        if isinstance(lp, ast.For):
            t = norm(lp.target)
            if "sig" not in t:
                continue
            n += 1
            ok, why = order_preserving(fn, lp.iter)
            chk.ob("R08.a", f"signature::OverloadedSignature.check_call::loop#{n}", ok, prog.site("signature", lp), f"overloads are iterated via `{norm(lp.iter)}`: {why}")
    if n < 2:
        raise AnchorError("OverloadedSignature.check_call: fewer than 2 loops over the signatures")


def r08_bc(prog: Program, chk: Check) -> None:
    chk.rule("R08.b", "first clean match wins: the arm reached by a result that is no error, needs no decomposition and used no Any returns; error arms continue, Any/union arms fall through", floor=4)
    chk.rule("R08.c", "diagnosed when nothing matched: every path that leaves resolution without a clean/Any match reports an error and returns Any[error]", floor=3)
    fn = prog.func("signature", "OverloadedSignature.check_call")
    need_locals(fn, "ret", "any_rets", "actual_args", "bound_args")
    site = prog.site("signature", fn)
    loops = [lp for lp in walk_no_nested(fn) if isinstance(lp, ast.For) and any("check_call_preprocessed" in norm(c) for c in calls_in(lp))]
    if len(loops) != 1:
        raise AnchorError("check_call: resolution loop not found")
    lp = loops[0]
    chain = None
    for s in lp.body:
        if isinstance(s, ast.If) and "is_error" in norm(s.test):
            chain = s
    if chain is None:
        raise AnchorError("check_call: result dispatch chain not found")
    arms: List[Tuple[str, List[ast.stmt]]] = []
    cur: Optional[ast.If] = chain
    while cur is not None:
        arms.append((norm(cur.test), cur.body))
        if len(cur.orelse) == 1 and isinstance(cur.orelse[0], ast.If):
            cur = cur.orelse[0]
        else:
            arms.append(("else", cur.orelse))
            cur = None
    names = [a[0] for a in arms]
    ok = len(arms) == 4 and "is_error" in names[0] and "remaining_arguments is not None" in names[1] and "used_any_for_match" in names[2] and names[3] == "else"
    chk.ob("R08.b", "signature::OverloadedSignature.check_call::arm-order", ok, site, f"the dispatch on a result must test error, then union decomposition, then Any, then clean; found {names}")
    if ok:
        chk.ob("R08.b", "signature::OverloadedSignature.check_call::error-continues", len(arms[0][1]) == 1 and isinstance(arms[0][1][0], ast.Continue), site, "an overload whose check reported an error must be skipped")
        chk.ob("R08.b", "signature::OverloadedSignature.check_call::any-does-not-return", not any(isinstance(x, ast.Return) for s in arms[2][1] for x in ast.walk(s)) and any("any_rets.append" in norm(s) for s in arms[2][1]), site, "an Any match must be remembered, not returned: a later clean match may exist")
        clean = arms[3][1]
        chk.ob("R08.b", "signature::OverloadedSignature.check_call::clean-returns", len(clean) >= 1 and isinstance(clean[-1], ast.Return) and "_unite_rets" in norm(clean[-1]), site, "a clean match must end resolution immediately")
        rebind = any("actual_args = ret.remaining_arguments" in norm(s) for s in arms[1][1])
        chk.ob("R08.b", "signature::OverloadedSignature.check_call::union-continues-with-remainder", rebind and not any(isinstance(x, ast.Return) for s in arms[1][1] for x in ast.walk(s)), site, "a partial (union) match must continue with the remaining union members")
    # R08.c
    g = CFG(fn)
    after = fn.body[fn.body.index(lp) + 1 :] if lp in fn.body else []
    shows = [s for s in walk_no_nested(fn) if isinstance(s, ast.Expr) and isinstance(s.value, ast.Call) and last_attr(s.value) == "show_error"]
    unite_returns = [r for r in returns_of(fn) if r.value is not None and "_unite_rets" in norm(r.value)]
    ok = False
    if after:
        ok = g.must_pass_through(after[0], shows + unite_returns)
    chk.ob("R08.c", "signature::OverloadedSignature.check_call::after-loop-diagnosed", ok, site, "after the loop every path must either unite the Any matches or call show_error")
    err_rets = [r for r in returns_of(fn) if r.value is not None and norm(r.value) == "AnyValue(AnySource.error)"]
    ok = bool(err_rets)
    for r in err_rets:
        blk = None
        p = parent(r)
        for fld in ("body", "orelse"):
            lst = getattr(p, fld, None)
            if isinstance(lst, list) and r in lst:
                blk = lst
        prev = blk[blk.index(r) - 1] if blk and blk.index(r) > 0 else None
        is_pre = any("actual_args is None" in norm(gd) for gd, _ in guards_of(r, fn))
        if not is_pre and not (isinstance(prev, ast.Expr) and isinstance(prev.value, ast.Call) and last_attr(prev.value) == "show_error"):
            ok = False
    chk.ob("R08.c", "signature::OverloadedSignature.check_call::error-return-follows-show_error", ok, site, "every `return AnyValue(AnySource.error)` must directly follow a show_error call (argument preprocessing already reported its own error)")
    nb = None
    for s in fn.body:
        if isinstance(s, ast.If) and "bound_args is not None" in norm(s.test) and "not any(" in norm(s.test):
            nb = s
    ok = nb is not None and any("show_error" in norm(x) for x in nb.body) and isinstance(nb.body[-1], ast.Return)
    chk.ob("R08.c", "signature::OverloadedSignature.check_call::no-overload-binds", ok, site, "when no overload binds the arguments an error must be reported")


def r08_d(prog: Program, chk: Check) -> None:
    chk.rule("R08.d", "Any accounting: the used-Any flag is read inside reset_any_used(), both modes are scoped overrides, several matches involving Any give Any[multiple_overload_matches]", floor=4)
    fn = prog.func("value", "can_assign_and_used_any")
    ok = False
    for w in walk_no_nested(fn):
        if isinstance(w, ast.With) and "reset_any_used()" in norm(w.items[0].context_expr):
            body = [norm(s) for s in w.body]
            ok = any(".can_assign(" in b for b in body) and any("has_used_any_match()" in b for b in body)
            idx_c = next(i for i, b in enumerate(body) if ".can_assign(" in b) if ok else 0
            idx_h = next(i for i, b in enumerate(body) if "has_used_any_match()" in b) if ok else 0
            ok = ok and idx_c < idx_h
    chk.ob("R08.d", "value::can_assign_and_used_any::flag-read-inside-reset", ok, prog.site("value", fn), "has_used_any_match() must be read after the check and inside the reset_any_used() block")
    for mname, attr, val in (("reset_any_used", "_has_used_any_match", "False"), ("set_exclude_any", "_should_exclude_any", "True")):
        f2 = prog.func("checker", f"Checker.{mname}")
        r = returns_of(f2)
        ok = len(r) == 1 and isinstance(r[0].value, ast.Call) and norm(r[0].value.func) == "qcore.override" and len(r[0].value.args) == 3 and norm(r[0].value.args[1]) == repr(attr) and norm(r[0].value.args[2]) == val
        chk.ob("R08.d", f"checker::Checker.{mname}::scoped-override", ok, prog.site("checker", f2), f"{mname} must be qcore.override(self, {attr!r}, {val}) so the previous state is restored on exit")
    ur = prog.func("signature", "OverloadedSignature._unite_rets")
    need_locals(ur, "any_rets", "union_and_any_rets", "union_rets", "clean_ret", "deduped")
    first = ur.body[0]
    ok = False
    if isinstance(first, ast.If) and norm(first.test) == "any_rets or union_and_any_rets":
        inner = [s for s in first.body if isinstance(s, ast.If)]
        if inner:
            t = norm(inner[0].test)
            ok = "len(deduped) == 1" in t and "not union_rets" in t and "not union_and_any_rets" in t and "clean_ret is None" in t
            ok = ok and any(isinstance(s, ast.Return) and norm(s.value) == "AnyValue(AnySource.multiple_overload_matches)" for s in inner[0].orelse)
    chk.ob("R08.d", "signature::OverloadedSignature._unite_rets::multiple-any-matches", ok, prog.site("signature", ur), "whenever an Any match coexists with another match the result must be Any[multiple_overload_matches]")


def r08_e(prog: Program, chk: Check) -> None:
    chk.rule("R08.e", "union decomposition is available for arguments passed by position and by keyword alike", floor=2)
    fn = prog.func("signature", "Signature.check_call_with_bound_args")
    site = prog.site("signature", fn)
    calls = [c for c in calls_in(fn, "_check_param_type_compatibility") if kw(c, "is_overload") is not None]
    if not calls:
        raise AnchorError("check_call_with_bound_args: is_overload= not passed to _check_param_type_compatibility")
    e = kw(calls[0], "is_overload")
    restricts = [x for x in ast.walk(e) if isinstance(x, ast.Call) and last_attr(x) == "isinstance" and len(x.args) == 2 and norm(x.args[0]) == "position"]
    # the classes admitted by the isinstance tests of the gate, however they are spelled
    # (`isinstance(p, (int, str))`, `isinstance(p, int) or isinstance(p, str)`)
    admitted: Set[str] = set()
    for r in restricts:
        admitted |= {norm(t) for t in (r.args[1].elts if isinstance(r.args[1], ast.Tuple) else [r.args[1]])}
    ok = not restricts or {"int", "str"} <= admitted
    chk.ob("R08.e", "signature::Signature.check_call_with_bound_args::decomposition-guard", ok, site, f"`is_overload={norm(e)}` switches union decomposition off for keyword (str) or positional (int) arguments")
    arms = {norm(n.test) for n in walk_no_nested(fn) if isinstance(n, ast.If) and "isinstance(position" in norm(n.test)}
    chk.ob("R08.e", "signature::Signature.check_call_with_bound_args::both-rebuild-arms", "isinstance(position, int)" in arms and "isinstance(position, str)" in arms, site, "the remaining union members must be written back for positional and for keyword arguments")


# ------------------------------------------------------------------- R08.f
def _overload_chunk(args):
    part, nparts, max_n = args
    from ..model import Program as _P
    from . import overload_model as om

    model = om.OverloadModel(_P())
    n = 0
    classes: Dict[str, Dict[str, object]] = {}

    def fmt(ovs):
        return [("" if b else "(arity mismatch) ") + ("(other parameter rejects) " if f else "") + ("object" if p == om.TOP else "|".join(sorted(p))) + " -> " + r for b, p, r, f in ovs]

    def note(key: str, bad: bool, ovs, a, diag, res, extra=None) -> None:
        c = classes.setdefault(key, {"n": 0, "bad": 0, "witness": []})
        c["n"] += 1  # type: ignore[operator]
        if bad:
            c["bad"] += 1  # type: ignore[operator]
            w = c["witness"]
            w.append({"overloads": fmt(ovs), "argument": "Any" if a == "Any" else " | ".join(sorted(a)), "diagnosed": diag, "result": sorted(res) if isinstance(res, frozenset) else res, **(extra or {})})  # type: ignore[union-attr]
            w.sort(key=lambda d: (len(d["overloads"]), len(repr(d))))  # type: ignore[union-attr]
            del w[4:]  # type: ignore[arg-type]

    for idx, ovs in enumerate(om.overload_sets(max_n)):
        if idx % nparts != part:
            continue
        for a in om.arguments():
            n += 1
            diag, res = model.run(ovs, a)
            crashed = isinstance(res, str) and res.startswith("crash")
            note("no-crash", crashed, ovs, a, diag, res)
            if crashed:
                continue
            is_any = isinstance(res, str) and res.startswith("Any")
            if a == "Any":
                cands = []
                for b, p, r, f in ovs:
                    if not b or f:
                        continue
                    cands.append(r)
                    if p == om.TOP:
                        break
                note("Any argument never selects one overload's type when several overloads match", len(set(cands)) >= 2 and not is_any, ovs, a, diag, res)
                note("Any argument is diagnosed only when no overload binds", diag != (not cands), ovs, a, diag, res)
                continue
            owns = {x: om.own_call(ovs, x) for x in a}
            if len(a) == 1:
                (x,) = tuple(a)
                r = owns[x]
                note("plain argument: diagnosed iff no overload accepts it", (r is None) != diag, ovs, a, diag, res)
                if r is not None and not diag:
                    note("plain argument: typed by the first accepting overload", res != frozenset({r}), ovs, a, diag, res, {"first_accepting_overload_returns": r})
            else:
                ok_all = all(v is not None for v in owns.values())
                note("union argument: accepted iff every member is accepted by some overload", ok_all == diag, ovs, a, diag, res, {"members_own_results": owns})
                if ok_all and not diag:
                    note("union argument: the type contains each member's own result", not is_any and not set(owns.values()) <= set(res), ovs, a, diag, res, {"members_own_results": owns})
    return n, classes


def r08_f(prog: Program, chk: Check) -> None:
    import multiprocessing as mp
    import os as _os

    max_n = 2 if _os.environ.get("VERIF_SELFTEST") else 4 if chk.tier == "thorough" else 3
    chk.rule(
        "R08.f",
        "overload resolution as a finite model: OverloadedSignature.check_call and _unite_rets are interpreted from their AST; each overload is a model object that binds or not "
        "and whose single-overload check follows the documented contract (clean match / match through Any / partial match of a union with the remainder handed on / error) for one "
        f"argument over three atoms; for every set of 2-{max_n} overloads (parameter = one or two atoms or `object`, arity binding or not, distinct or repeated return types) and every "
        "argument (atom, union, Any) the verdict and type satisfy the property: first accepting overload for plain arguments; unions accepted iff every member is, with each member's "
        "own result in the type; Any never selects one overload's type when several match",
        floor=6,
    )
    procs = 2 if _os.environ.get("VERIF_SELFTEST") else min(16, _os.cpu_count() or 1)
    with mp.get_context("fork").Pool(procs) as pl:
        results = pl.map(_overload_chunk, [(i, procs * 3, max_n) for i in range(procs * 3)])
    total = 0
    merged: Dict[str, Dict[str, object]] = {}
    for n, classes in results:
        total += n
        for k, c in classes.items():
            m = merged.setdefault(k, {"n": 0, "bad": 0, "witness": []})
            m["n"] += c["n"]  # type: ignore[operator]
            m["bad"] += c["bad"]  # type: ignore[operator]
            m["witness"] = sorted(list(m["witness"]) + list(c["witness"]), key=lambda d: (len(d["overloads"]), len(repr(d))))[:4]  # type: ignore[arg-type]
    chk.model_evaluations += total
    chk.analysed["overload_model"] = {"calls": total, "max_overloads": max_n}
    site = prog.site("signature", prog.func("signature", "OverloadedSignature.check_call"))
    for k, c in sorted(merged.items()):
        wit = c["witness"]
        chk.ob("R08.f", f"signature::overload-model::{k}", int(c["bad"]) == 0, site,  # type: ignore[arg-type]
               f"{c['n']} calls, {c['bad']} failing" + (f"; smallest: {wit[0]}" if wit else ""), witness=wit)  # type: ignore[index]


# ------------------------------------------------------------------- R08.g
def r08_g(prog: Program, chk: Check) -> None:
    from . import container_model as cmod

    chk.rule(
        "R08.g",
        "a match that rests on Any is reported as such: can_assign of the container model (C03 R03.f / C04 R04.k: Value / KnownValue / TypedValue / MultiValuedValue / GenericValue / "
        "SequenceValue / TypedDictValue.can_assign interpreted from their AST) is given Any on the right for every parameter type of its domain (object, classes, literals, unions, "
        "containers, TypedDicts): whenever the type accepts Any and is not Any itself, ctx.record_any_used() has been called - that call is what makes OverloadedSignature.check_call "
        "go on to the later overloads and answer Any[multiple_overload_matches] instead of the first overload's type - and in the `Any only matches Any` mode nothing but Any accepts it",
        floor=2,
    )
    m = cmod.ContainerModel(prog)
    silent, lenient, crashes, unsupported = [], [], [], []
    n = 0
    specs = list(cmod.type_specs()) + list(cmod.typeddict_specs())[::9]
    for spec in specs:
        if spec[0] == "any":
            continue
        d = {"parameter type": cmod.spec_str(spec), "argument": "Any"}
        for exclude in (False, True):
            n += 1
            try:
                r = m.can_assign(m.value_of(spec), m.any(), exclude_any=exclude)
            except AnchorError as e:
                unsupported.append({**d, "why": str(e)[:300]})
                continue
            if isinstance(r, tuple):
                crashes.append({**d, "error": r[1]})
            elif exclude and r:
                lenient.append({**d, "mode": "Any only matches Any", "accepted": True})
            elif not exclude and r and not m.last_used_any:
                silent.append({**d, "accepted": True, "record_any_used called": False})
            elif not exclude and not r:
                crashes.append({**d, "error": "Any is rejected"})
    chk.model_evaluations += n
    site = prog.site("value", prog.find_method("TypedValue", "can_assign")[1])  # type: ignore[index]
    for lst in (silent, lenient, crashes):
        lst.sort(key=lambda x: len(x["parameter type"]))
    chk.ob("R08.g", "value::any-match-model::an acceptance of Any is recorded", not silent, site, f"{len(specs)} parameter types, {len(silent)} accept Any without recording it" + (f"; smallest: {silent[0]}" if silent else ""), witness=silent[:5])
    chk.ob("R08.g", "value::any-match-model::Any only matches Any when asked to", not lenient, site, f"{len(lenient)} parameter types accept Any in the exclude-Any mode" + (f"; smallest: {lenient[0]}" if lenient else ""), witness=lenient[:5])
    chk.ob("R08.g", "value::any-match-model::no-crash", not crashes, site, f"{len(crashes)} crashes / rejections of Any" + (f"; first: {crashes[0]}" if crashes else ""), witness=crashes[:3])
    if unsupported:
        raise AnchorError(f"{len(unsupported)} parameter types cannot be modelled; first: {unsupported[0]}")


def run(prog: Program, chk: Check) -> None:
    guard(chk, r08_e, prog, chk)
    guard(chk, r08_d, prog, chk)
    guard(chk, r08_f, prog, chk)
    guard(chk, r08_g, prog, chk)
    guard(chk, r08_h, prog, chk)


# ------------------------------------------------------------------- R08.h
def r08_h(prog: Program, chk: Check) -> None:
    chk.rule(
        "R08.h",
        "union decomposition is requested only for arguments that can be put back: in Signature.check_call_with_bound_args the remainder of a partially matched union is written "
        "back into the positionals (position is an int) or the keywords (a str) and anything else is a failing default (`assert False`); the `is_overload=` gate passed to "
        "_check_param_type_compatibility - the only way a remainder is produced - admits exactly those positions (`isinstance(position, (int, str))`): an argument taken from "
        "*args / **kwargs carries a marker object, not None",
        floor=2,
    )
    found = prog.find_method("Signature", "check_call_with_bound_args")
    if found is None:
        raise AnchorError("Signature.check_call_with_bound_args not found")
    fn = found[1]
    site_mod = "signature"
    gate = None
    for call in walk_no_nested(fn):
        if isinstance(call, ast.Call) and last_attr(call.func) == "_check_param_type_compatibility" and kw(call, "is_overload") is not None:
            gate = kw(call, "is_overload")
    if gate is None:
        raise AnchorError("check_call_with_bound_args: no _check_param_type_compatibility(..., is_overload=...) call")

    def isinstance_types(test: ast.AST, subject: str) -> Optional[Set[str]]:
        out: Set[str] = set()
        hit = False
        for n in ast.walk(test):
            if isinstance(n, ast.Call) and isinstance(n.func, ast.Name) and n.func.id == "isinstance" and len(n.args) == 2 and norm(n.args[0]) == subject:
                hit = True
                t = n.args[1]
                out |= {norm(e) for e in (t.elts if isinstance(t, ast.Tuple) else [t])}
        return out if hit else None

    # the chain that puts the remainder back
    arms: Set[str] = set()
    failing_default = False
    subject = None
    for node in walk_no_nested(fn):
        if isinstance(node, ast.If) and "remaining_value is not None" in norm(node.test):
            cur: Optional[ast.stmt] = node.body[0] if node.body else None
            while isinstance(cur, ast.If):
                for n in ast.walk(cur.test):
                    if isinstance(n, ast.Call) and isinstance(n.func, ast.Name) and n.func.id == "isinstance" and len(n.args) == 2:
                        subject = norm(n.args[0])
                        t = n.args[1]
                        arms |= {norm(e) for e in (t.elts if isinstance(t, ast.Tuple) else [t])}
                if cur.orelse and not isinstance(cur.orelse[0], ast.If):
                    failing_default = any(isinstance(s, ast.Assert) or isinstance(s, ast.Raise) for s in cur.orelse)
                cur = cur.orelse[0] if cur.orelse else None
    if subject is None or not arms:
        raise AnchorError("check_call_with_bound_args: the isinstance chain that writes the remainder back was not found")
    gate_types = isinstance_types(gate, subject)
    site = prog.site(site_mod, gate)
    chk.ob("R08.h", "signature::Signature.check_call_with_bound_args::remainder-chain-found", True, site, f"arms handle {sorted(arms)}; failing default: {failing_default}")
    chk.ob(
        "R08.h",
        "signature::Signature.check_call_with_bound_args::is_overload-gate-admits-only-handled-positions",
        gate_types is not None and gate_types <= arms,
        site,
        f"`is_overload={norm(gate)[:80]}` lets a remainder be produced for positions other than {sorted(arms)} (the arms that can put it back); for an argument from *args / **kwargs the chain falls into its failing default: internal_error",
    )
