"""Finite model of nominal assignability (C03, C04): Value.can_assign,
KnownValue.can_assign, TypedValue.can_assign, MultiValuedValue.can_assign,
AnyValue.can_assign and TypeObject (__post_init__, can_assign,
is_assignable_to_type, is_instance) are interpreted from their AST on values
whose payloads are real runtime objects and classes, and compared with
membership in a universe of runtime objects."""

from __future__ import annotations

import ast
import enum
import unittest.mock
from typing import Any, Dict, FrozenSet, List, Optional, Sequence, Tuple

from ..minterp import AssertionFailed, Interp, ModelError, Obj, Opaque, PyRaise, Sym, Unsupported
from ..model import AnchorError, Program
from .narrow_model import Color

UNIVERSE: Tuple[Any, ...] = (True, False, 0, 1, 2, 1.5, 2j, "a", "", None, Color.R, Color.G)
TYPES: Tuple[type, ...] = (bool, int, float, complex, str, type(None), Color, object)
PROMOTION = {float: (int,), complex: (float, int)}


class V(Obj):
    """Model Value with the equality the real dataclasses have (type-strict literals)."""

    def key(self) -> Any:
        k, a = self._kind, self._attrs
        if k == "KnownValue":
            v = a["val"]
            return ("K", type(v).__name__, repr(v))
        if k == "TypedValue":
            return ("T", a["typ"].__qualname__)
        if k == "AnyValue":
            return ("A",)
        if k == "MultiValuedValue":
            return ("U", tuple(x.key() for x in a["vals"]))
        raise AnchorError(f"assignability model: no key for {k}")

    def __eq__(self, other: object) -> bool:
        return isinstance(other, V) and self.key() == other.key()

    def __ne__(self, other: object) -> bool:
        return not self.__eq__(other)

    def __hash__(self) -> int:
        return hash(self.key())


def same(a: Any, b: Any) -> bool:
    return type(a) is type(b) and a == b


def members(v: V) -> FrozenSet[int]:
    k = v._kind
    if k == "AnyValue":
        return frozenset(range(len(UNIVERSE)))
    if k == "KnownValue":
        return frozenset(i for i, o in enumerate(UNIVERSE) if same(o, v._attrs["val"]))
    if k == "TypedValue":
        t = v._attrs["typ"]
        acc = (t,) + PROMOTION.get(t, ())
        return frozenset(i for i, o in enumerate(UNIVERSE) if isinstance(o, acc))
    if k == "MultiValuedValue":
        out: FrozenSet[int] = frozenset()
        for x in v._attrs["vals"]:
            out = out | members(x)
        return out
    raise AnchorError(k)


def show(v: V) -> str:
    k, a = v._kind, v._attrs
    if k == "AnyValue":
        return "Any"
    if k == "KnownValue":
        return f"Literal[{a['val']!r}]"
    if k == "TypedValue":
        return a["typ"].__name__
    return " | ".join(show(x) for x in a["vals"]) or "Never"


class AssignModel:
    CLASS_OF = {"KnownValue": "KnownValue", "TypedValue": "TypedValue", "AnyValue": "AnyValue", "MultiValuedValue": "MultiValuedValue"}

    def __init__(self, prog: Program) -> None:
        self.prog = prog
        self.method_defs: Dict[Tuple[str, str], ast.FunctionDef] = {}
        self.fn_class: Dict[int, str] = {}
        for cname in ("Value", "KnownValue", "TypedValue", "AnyValue", "MultiValuedValue"):
            ci = prog.cls(cname)
            for name, fn in ci.methods.items():
                self.fn_class[id(fn)] = cname
        for kind in self.CLASS_OF:
            found = prog.find_method(kind, "can_assign")
            if found is None:
                raise AnchorError(f"{kind}.can_assign not found")
            self.method_defs[(kind, "can_assign")] = found[1]
            for extra in ("is_assignable",):
                f2 = prog.find_method(kind, extra)
                if f2 is not None:
                    self.method_defs[(kind, extra)] = f2[1]
                    self.fn_class[id(f2[1])] = f2[0].name
        tobj = prog.cls("TypeObject")
        for name in ("__post_init__", "can_assign", "is_assignable_to_type", "is_assignable_to_type_object", "is_instance"):
            self.method_defs[("TypeObject", name)] = tobj.methods[name]
        self.module_defs = {"is_union": prog.func("value", "is_union")} if prog.has_func("value", "is_union") else {}
        self.never = V("MultiValuedValue", vals=(), _known_subvals=None)
        self._tobj_cache: Dict[type, Obj] = {}

    # -------------------------------------------------------------- values
    def known(self, o: Any) -> V:
        return V("KnownValue", val=o)

    def typed(self, t: type) -> V:
        return V("TypedValue", typ=t, literal_only=False)

    def any(self) -> V:
        return V("AnyValue", source=Sym("AnySource.explicit"))

    def union(self, vals: Sequence[V]) -> V:
        flat: List[V] = []
        for v in vals:
            flat.extend(v._attrs["vals"] if v._kind == "MultiValuedValue" else [v])
        u = V("MultiValuedValue", vals=tuple(flat), _known_subvals=None)
        return u

    def with_known_subvals(self, u: V) -> V:
        """MultiValuedValue._get_known_subvals, interpreted from source (the large-union fast path)."""
        fn = self.prog.find_method("MultiValuedValue", "_get_known_subvals")
        if fn is None:
            return u
        it = self._interp(Obj("ctx"))
        u._attrs["_known_subvals"] = it.call_def(fn[1], [u], fn[1])
        return u

    # ----------------------------------------------------------- interpreter
    def _super(self, cur_fn: ast.FunctionDef, meth: str) -> Optional[ast.FunctionDef]:
        cname = self.fn_class.get(id(cur_fn))
        if cname is None:
            return None
        mro = [c.name for c in self.prog.mro(cname)]
        for c in mro[1:]:
            ci = self.prog.cls(c)
            if meth in ci.methods:
                self.fn_class[id(ci.methods[meth])] = c
                return ci.methods[meth]
        return None

    def _interp(self, ctx: Obj) -> Interp:
        def isinstance_hook(v: Any, cls: str) -> Optional[bool]:
            names = ("KnownValue", "TypedValue", "AnyValue", "MultiValuedValue", "AnnotatedValue", "TypeVarValue", "TypeAliasValue", "SubclassValue", "UnboundMethodValue", "CanAssignError", "FunctionType", "GenericValue", "SequenceValue")
            if cls in names:
                return isinstance(v, Obj) and v._kind == cls
            return None

        funcs = {
            "CanAssignError": lambda args: Obj("CanAssignError", message=str(args[0]) if args else ""),
            "unify_bounds_maps": lambda args: {},
            "intersect_bounds_maps": lambda args: {},
            "flatten_values": lambda args: list(args[0]._attrs["vals"]) if args[0]._kind == "MultiValuedValue" else [args[0]],
            "safe_equals": lambda args: args[0] == args[1],
            "safe_issubclass": lambda args: isinstance(args[0], type) and isinstance(args[1], (type, tuple)) and issubclass(args[0], args[1]),
            "safe_isinstance": lambda args: isinstance(args[0], args[1]),
            "safe_in": lambda args: args[0] in args[1],
            "get_mro": lambda args: list(args[0].__mro__),
            "TypedValue": lambda args: self.typed(args[0]),
        }
        globals_ = {"NO_RETURN_VALUE": self.never, "__super__": self._super, "mock": unittest.mock}
        return Interp({}, {}, (), funcs, isinstance_hook, self.method_defs, self.module_defs, globals_)

    def type_object(self, typ: type, it: Interp) -> Obj:
        if typ not in self._tobj_cache:
            t = Obj("TypeObject", typ=typ, base_classes=set(), is_protocol=False, protocol_members=set(), is_thrift_enum=False, is_universally_assignable=False, artificial_bases=set(), _protocol_positive_cache={})
            it.call_def(self.method_defs[("TypeObject", "__post_init__")], [t], self.method_defs[("TypeObject", "__post_init__")])
            self._tobj_cache[typ] = t
        return self._tobj_cache[typ]

    def can_assign(self, left: V, right: V, exclude_any: bool = False) -> Any:
        """True / False (a CanAssignError), or ("crash", why)."""
        used_any: List[bool] = []
        ctx = Obj("ctx", should_exclude_any=lambda: exclude_any, record_any_used=lambda: used_any.append(True))
        it = self._interp(ctx)
        ctx._attrs["make_type_object"] = lambda typ: self.type_object(typ, it)

        def attach(v: V) -> None:
            if v._kind == "TypedValue":
                v._attrs["get_type_object"] = lambda c=None, v=v: self.type_object(v._attrs["typ"], it)
            elif v._kind == "KnownValue":
                v._attrs["get_type_object"] = lambda c=None, v=v: self.type_object(type(v._attrs["val"]), it)
            elif v._kind == "MultiValuedValue":
                for x in v._attrs["vals"]:
                    attach(x)

        attach(left)
        attach(right)
        fn = self.method_defs[(left._kind, "can_assign")]
        self.fn_class.setdefault(id(fn), left._kind)
        try:
            res = it.call_def(fn, [left, right, ctx], fn)
        except Unsupported as u:
            raise AnchorError(f"can_assign cannot be modelled: {u}")
        except AssertionFailed as af:
            return ("crash", f"assertion {af}")
        except (PyRaise, ModelError) as e:
            return ("crash", str(e))
        return not (isinstance(res, Obj) and res._kind == "CanAssignError")
