"""Finite model of the union algebra (C14): unite_values, flatten_values,
annotate_value and _is_unreachable are interpreted from their AST on model values
with structural equality and hashing (literals are type-strict; a literal with an
unhashable payload is unhashable), and the semilattice laws are checked on every
triple of a small value set."""

from __future__ import annotations

import ast
from typing import Any, Dict, List, Optional, Sequence, Tuple

from ..minterp import AssertionFailed, Interp, ModelError, Obj, Opaque, PyRaise, Sym, Unsupported
from ..model import AnchorError, Program


class V(Obj):
    """Model Value: equality and hash by structure (as the dataclass-generated and
    hand-written __eq__/__hash__ of the real classes do; R14.1 decides those)."""

    def key(self) -> Any:
        k = self._kind
        a = self._attrs
        if k == "KnownValue":
            v = a["val"]
            return ("K", type(v).__name__, tuple(v) if isinstance(v, list) else v, isinstance(v, list))
        if k == "TypedValue":
            return ("T", a["typ"])
        if k == "AnyValue":
            return ("A", a["source"].name if isinstance(a["source"], Sym) else str(a["source"]))
        if k == "MultiValuedValue":
            return ("U", tuple(x.key() for x in a["vals"]))
        if k == "AnnotatedValue":
            return ("N", a["value"].key(), tuple(m.key() if isinstance(m, V) else repr(m) for m in a["metadata"]))
        if k == "Extension":
            return ("E", a["name"])
        raise AnchorError(f"union model: no key for {k}")

    def __eq__(self, other: object) -> bool:
        return isinstance(other, V) and self.key() == other.key()

    def __ne__(self, other: object) -> bool:
        return not self.__eq__(other)

    def __hash__(self) -> int:
        # KnownValue.__hash__ hashes an unhashable payload by identity (known finding C14 R14.1
        # value::KnownValue::eq-hash); the model mirrors that so that unite_values sees what it
        # sees on the real classes
        if self._kind == "KnownValue" and isinstance(self._attrs["val"], list):
            return hash(("K", "list", id(self._attrs["val"])))
        if self._unhashable():
            return hash((self._kind, id(self)))
        return hash(self.key())

    def _unhashable(self) -> bool:
        k = self._kind
        if k == "KnownValue":
            return isinstance(self._attrs["val"], list)
        if k == "MultiValuedValue":
            return any(x._unhashable() for x in self._attrs["vals"])
        if k == "AnnotatedValue":
            return self._attrs["value"]._unhashable()
        return False


def show(v: Any) -> str:
    if not isinstance(v, V):
        return repr(v)
    k, a = v._kind, v._attrs
    if k == "KnownValue":
        return f"Literal[{a['val']!r}]"
    if k == "TypedValue":
        return a["typ"]
    if k == "AnyValue":
        return f"Any[{a['source'].name.split('.')[-1] if isinstance(a['source'], Sym) else a['source']}]"
    if k == "MultiValuedValue":
        return " | ".join(show(x) for x in a["vals"]) or "Never"
    if k == "AnnotatedValue":
        return f"Annotated[{show(a['value'])}, {', '.join(show(m) for m in a['metadata'])}]"
    return a.get("name", k)


class UnionModel:
    def __init__(self, prog: Program) -> None:
        f = lambda q: prog.func("value", q)  # noqa: E731
        self.module_defs = {"unite_values": f("unite_values"), "flatten_values": f("flatten_values"), "annotate_value": f("annotate_value"), "_is_unreachable": f("_is_unreachable")}
        self.never = V("MultiValuedValue", vals=())
        self.ext = V("Extension", name="ext1")

    # constructors --------------------------------------------------------
    def known(self, val: Any) -> V:
        return V("KnownValue", val=val)

    def typed(self, name: str) -> V:
        return V("TypedValue", typ=name)

    def any(self, source: str) -> V:
        return V("AnyValue", source=Sym(f"AnySource.{source}"))

    def union(self, vals: Sequence[V]) -> V:
        # MultiValuedValue.__post_init__: vals = tuple(chain.from_iterable(flatten_values(val) for val in raw_vals))
        flat: List[V] = []
        for v in vals:
            flat.extend(self.flatten(v))
        return V("MultiValuedValue", vals=tuple(flat))

    def annotated(self, value: V, metadata: Sequence[Any]) -> V:
        return V("AnnotatedValue", value=value, metadata=tuple(metadata))

    # interpreted functions ----------------------------------------------
    def _interp(self) -> Interp:
        def isinstance_hook(v: Any, cls: str) -> Optional[bool]:
            if cls in ("KnownValue", "TypedValue", "AnyValue", "MultiValuedValue", "AnnotatedValue"):
                return isinstance(v, V) and v._kind == cls
            return None

        funcs = {
            "MultiValuedValue": lambda args: self.union(list(args[0])),
            "AnnotatedValue": lambda args: self.annotated(args[0], args[1]),
            "AnyValue": lambda args: V("AnyValue", source=args[0]),
        }
        return Interp({}, {}, (), funcs, isinstance_hook, {}, self.module_defs, {"NO_RETURN_VALUE": self.never})

    def unite(self, *vals: V) -> Any:
        it = self._interp()
        try:
            return it.call_def(self.module_defs["unite_values"], [], self.module_defs["unite_values"], {}) if False else self._call_varargs(it, vals)
        except Unsupported as u:
            raise AnchorError(f"unite_values cannot be modelled: {u}")
        except AssertionFailed as af:
            raise AnchorError(f"unite_values: assertion reached: {af}")
        except (PyRaise, ModelError) as e:
            return ("crash", str(e))

    def _call_varargs(self, it: Interp, vals: Sequence[V]) -> Any:
        fn = self.module_defs["unite_values"]
        if fn.args.vararg is None or fn.args.args:
            raise AnchorError("unite_values is expected to take *values only")
        sub = Interp({fn.args.vararg.arg: tuple(vals)}, it.effect_methods, tuple(it.syms), it.funcs, it.isinstance_hook, it.method_defs, it.module_defs, it.globals)
        return sub.run(fn)

    def flatten(self, v: V) -> List[V]:
        it = self._interp()
        try:
            return list(it.call_def(self.module_defs["flatten_values"], [v], self.module_defs["flatten_values"]))
        except Unsupported as u:
            raise AnchorError(f"flatten_values cannot be modelled: {u}")
