"""Finite model of %-formatting checks (C17): PercentFormatString.from_pattern /
from_bytes_pattern (the regular expression is compiled from its folded literal),
ConversionSpecifier.from_match / lint / accept / accept_no_mvv, PercentFormatString.lint /
accept / accept_mapping_args(_no_mvv) / accept_tuple_args(_no_mvv) / get_serial_specifiers /
get_specifier_mapping and StarConversionSpecifier.accept are interpreted from their AST on
literal templates and literal arguments; the reference is CPython's own `template % args`."""

from __future__ import annotations

import ast
import itertools
import re
from typing import Any, Dict, Iterator, List, Optional, Sequence, Tuple

from ..fold import CannotFold, Folder
from ..minterp import AssertionFailed, Interp, ModelError, Obj, Opaque, PyRaise, Sym, Unsupported
from ..model import AnchorError, Program


class _K(Obj):
    """KnownValue / SequenceValue / DictIncompleteValue of the model, compared by payload."""

    def key(self) -> Any:
        a = self._attrs
        if self._kind == "KnownValue":
            return ("K", type(a["val"]).__name__, repr(a["val"]))
        return (self._kind, id(self))

    def __eq__(self, other: object) -> bool:
        return isinstance(other, _K) and self.key() == other.key()

    def __ne__(self, other: object) -> bool:
        return not self.__eq__(other)

    def __hash__(self) -> int:
        return hash(self.key())


class PercentModel:
    CS_METHODS = ("from_match", "_maybe_decode", "_parse_int_field", "lint", "accept", "accept_no_mvv")
    FS_METHODS = ("from_pattern", "from_bytes_pattern", "needs_mapping", "lint", "accept", "get_specifier_mapping", "accept_mapping_args", "accept_mapping_args_no_mvv", "get_serial_specifiers", "accept_tuple_args", "accept_tuple_args_no_mvv")

    def __init__(self, prog: Program) -> None:
        self.prog = prog
        cs = prog.cls("ConversionSpecifier")
        fs = prog.cls("PercentFormatString")
        star = prog.cls("StarConversionSpecifier")
        self.method_defs: Dict[Tuple[str, str], ast.FunctionDef] = {}
        for m in self.CS_METHODS:
            if m not in cs.methods:
                raise AnchorError(f"ConversionSpecifier.{m} not found")
            self.method_defs[("ConversionSpecifier", m)] = cs.methods[m]
            self.method_defs[("ConversionSpecifierCls", m)] = cs.methods[m]
        for m in self.FS_METHODS:
            if m not in fs.methods:
                raise AnchorError(f"PercentFormatString.{m} not found")
            self.method_defs[("PercentFormatString", m)] = fs.methods[m]
            self.method_defs[("PercentFormatStringCls", m)] = fs.methods[m]
        self.method_defs[("StarConversionSpecifier", "accept")] = star.methods["accept"]
        folder = Folder(prog, "format_strings")
        try:
            pattern = folder.table("_FORMAT_STRING_REGEX")
            numeric = folder.table("_NUMERIC_CONVERSION_TYPES")
        except (CannotFold, AnchorError) as e:
            raise AnchorError(f"format_strings constants cannot be folded: {e}")
        if not isinstance(pattern, str):
            raise AnchorError("_FORMAT_STRING_REGEX is not a string literal")
        self.rx_text = re.compile(pattern, re.VERBOSE | re.DOTALL)
        self.rx_bytes = re.compile(pattern.encode("ascii"), re.VERBOSE | re.DOTALL)
        self.numeric = set(numeric)
        # further module-level sets of conversion characters and helper functions, when the module has them
        self.extra_sets: Dict[str, Any] = {}
        self.module_defs: Dict[str, ast.FunctionDef] = {}
        mod = prog.modules["format_strings"]
        for st in mod.tree.body:
            if isinstance(st, ast.Assign) and len(st.targets) == 1 and isinstance(st.targets[0], ast.Name) and st.targets[0].id.endswith("_CONVERSION_TYPES") and st.targets[0].id != "_NUMERIC_CONVERSION_TYPES":
                try:
                    self.extra_sets[st.targets[0].id] = set(folder.table(st.targets[0].id))
                except (CannotFold, AnchorError) as e:
                    raise AnchorError(f"format_strings.{st.targets[0].id} cannot be folded: {e}")
            elif isinstance(st, ast.FunctionDef) and st.name.startswith("_is_"):
                self.module_defs[st.name] = st
        # dataclass fields of the two classes (order and defaults from the class bodies)
        self.cs_fields = self._fields(cs.node)
        self.fs_fields = self._fields(fs.node)

    @staticmethod
    def _fields(node: ast.ClassDef) -> List[Tuple[str, Any]]:
        out = []
        for st in node.body:
            if isinstance(st, ast.AnnAssign) and isinstance(st.target, ast.Name):
                out.append((st.target.id, ... if st.value is None else ast.literal_eval(st.value)))
        return out

    def fstring_fix(self, template: str, args_node: ast.AST) -> Any:
        """("fix", the f-string node that maybe_replace_with_fstring proposes for `template % <args_node>`, or None) | ("crash", why)"""
        return self.diagnostics(template, None, fix_node=args_node)

    def diagnostics(self, template: Any, args: Any, fix_node: Optional[ast.AST] = None) -> Any:
        """The messages check_string_format would show, or ("crash", why)."""
        errors: List[str] = []

        def mk(kind: str, fields: List[Tuple[str, Any]]):
            def construct(*a: Any, **k: Any) -> Obj:
                vals: Dict[str, Any] = {}
                for (name, _), x in zip(fields, a):
                    vals[name] = x
                vals.update(k)
                for name, d in fields:
                    if name not in vals:
                        if d is ...:
                            raise ModelError(f"{kind} constructed without {name}")
                        vals[name] = d
                return Obj(kind, **vals)

            return construct

        def wrap_match(m: Any) -> Obj:
            return Obj("Match", group=lambda name: m.group(name))

        def pattern_obj(rx: Any) -> Obj:
            return Obj("Pattern", finditer=lambda s: [wrap_match(m) for m in rx.finditer(s)])

        def known(o: Any) -> _K:
            return _K("KnownValue", val=o)

        def typed(args_: List[Any]) -> Obj:
            t = args_[0]
            accepted = (t, int) if t is float else (t,)
            return Obj("TypedValue", typ=t, is_assignable=lambda other, ctx=None: isinstance(other, _K) and other._kind == "KnownValue" and isinstance(other._attrs["val"], accepted))

        def replace_known(args_: List[Any]) -> Any:
            v = args_[0]
            if isinstance(v, _K) and v._kind == "KnownValue":
                val = v._attrs["val"]
                if isinstance(val, (list, tuple, set, frozenset)):
                    members = [known(x) for x in val]
                    return _K("SequenceValue", typ=type(val), members=tuple((False, m) for m in members), get_member_sequence=lambda: list(members))
                if isinstance(val, dict):
                    return _K("DictIncompleteValue", typ=dict, kv_pairs=tuple(Obj("KVPair", key=known(k), value=known(x)) for k, x in val.items()))
            return v

        def isinstance_hook(v: Any, cls: str) -> Optional[bool]:
            if cls in ("KnownValue", "SequenceValue", "DictIncompleteValue", "AnnotatedValue", "TypedValue"):
                return isinstance(v, Obj) and v._kind == cls
            if cls in ("bytes", "str"):
                return isinstance(v, {"bytes": bytes, "str": str}[cls])
            return None

        cs_cls = Obj("ConversionSpecifierCls", __call__=mk("ConversionSpecifier", self.cs_fields))
        fs_cls = Obj("PercentFormatStringCls", __call__=mk("PercentFormatString", self.fs_fields))
        numeric_value = Obj("Numeric", is_assignable=lambda other, ctx=None: isinstance(other, _K) and other._kind == "KnownValue" and (isinstance(other._attrs["val"], (int, float)) or hasattr(other._attrs["val"], "__index__")))
        funcs = {
            "KnownValue": lambda a: known(a[0]),
            "TypedValue": typed,
            "flatten_values": (lambda a, kw=None: [a[0]]),
            "replace_known_sequence_value": replace_known,
            "StarConversionSpecifier": lambda a: Obj("StarConversionSpecifier"),
            "defaultdict": None,
        }
        funcs["flatten_values"].wants_kwargs = True  # type: ignore[attr-defined]
        del funcs["defaultdict"]
        globals_ = {
            "_FORMAT_STRING_REGEX_TEXT": pattern_obj(self.rx_text), "_FORMAT_STRING_REGEX_BYTES": pattern_obj(self.rx_bytes), "_NUMERIC_CONVERSION_TYPES": self.numeric,
            "Numeric": numeric_value, "ConversionSpecifier": cs_cls, "PercentFormatString": fs_cls, "__concrete_fstrings__": True,
            "_SupportsIndex": __import__("typing").SupportsIndex, "__native_getattr__": True, **self.extra_sets,
        }
        it = Interp({}, {}, (), funcs, isinstance_hook, self.method_defs, self.module_defs, globals_)
        try:
            ctor = self.method_defs[("PercentFormatStringCls", "from_bytes_pattern" if isinstance(template, bytes) else "from_pattern")]
            fs = it.call_def(ctor, [fs_cls, template], ctor)
            if fix_node is not None:
                fixer = self.prog.func("format_strings", "maybe_replace_with_fstring")
                it.module_defs = dict(it.module_defs, _is_simple_enough=self.prog.func("format_strings", "_is_simple_enough"))
                it.globals["ast"] = ast
                return ("fix", it.call_def(fixer, [fs, fix_node], fixer))
            for err in it.call_def(self.method_defs[("PercentFormatString", "lint")], [fs], ctor):
                errors.append(_msg(err))
            for err in it.call_def(self.method_defs[("PercentFormatString", "accept")], [fs, known(args), Opaque("ctx")], ctor):
                errors.append(_msg(err))
        except Unsupported as u:
            raise AnchorError(f"%-format checking cannot be modelled: {u}")
        except AssertionFailed as af:
            return ("crash", f"assertion {af}")
        except (PyRaise, ModelError) as e:
            return ("crash", str(e))
        return errors


def _msg(err: Any) -> str:
    if isinstance(err, Opaque):
        return err.label[4:] if err.label.startswith("str:") else err.label
    return str(err)


def cpython(template: Any, args: Any) -> str:
    """"ok" or the name of the exception CPython raises while formatting."""
    try:
        template % args
    except Exception as e:  # noqa: BLE001 - the reference records whatever CPython raises
        return type(e).__name__
    return "ok"


SPECS = ("%s", "%d", "%5.2f", "%x", "%c", "%r", "%%", "%*d", "%.*f", "%(a)s", "%(a)d", "%(b)s", "%b", "%-5s", "%i")
ARGS: Tuple[Any, ...] = (
    1, "s", 1.5, None, b"b", "xy", "", b"",
    (), (1,), ("s",), (1, "s"), (1, 2), (1, 2, 3), (b"b",), (1.5, 2), ("",), ("s", ""),
    {}, {"a": 1}, {"a": "s"}, {"a": 1, "b": "s"}, {"b": 1}, {b"a": 1}, {b"a": 1, b"b": b"x"}, {1: "x"}, {"c": 1}, {b"\xff": b"x"}, {"\xff": "x"}, {"": 1}, {"": 1, "a": 2}, bytearray(b"a"), (bytearray(b"a"),), 300, (300,), 0x110000,
)


def templates() -> Iterator[Any]:
    yield "plain"
    yield ""
    for s in SPECS:
        yield s
        yield "x" + s + "y"
    for a, b in itertools.product(SPECS, repeat=2):
        yield a + " " + b
    yield from ("%", "%z", "%(a", "100%", "%5", "%(a)s %s", "%(a)*d", "%s %(a)s", "%\n", "%s\n")
    yield from SPECIAL_TEMPLATES


UNICODE_DIGIT_WIDTH = "%\u0663d"  # ARABIC-INDIC DIGIT THREE as a field width: not a digit for CPython's formatter
# templates behind a repaired defect each: every sampling step keeps them, with every argument
# (a precision without digits, an empty mapping key, %% next to a mapping key, a non-ASCII mapping key, a non-ASCII digit)
SPECIAL_TEMPLATES = ("%.f", "%5.d", "%.s", "%.3s|%.d", "%()s", "%(a)s %%", "%% %(a)d", "%(a)s %% %s", "%(\xff)s", UNICODE_DIGIT_WIDTH, "%c", "%s", "%b")


def both_kinds(t: str) -> Iterator[Any]:
    yield t
    if t != UNICODE_DIGIT_WIDTH:  # (not representable in a bytes template)
        yield t.encode("latin-1")  # every template of the domain is ASCII except the one with the key \xff
