"""Finite model of Signature.can_assign (callable compatibility, C07), extracted
by the opaque-value interpreter, and its reference: an accepted pair
(expected <- actual) must satisfy  forall call shapes c: expected binds c  =>
actual binds c  (binding per the language reference, binder_model.cpython_outcome).

Abstraction: every annotation is compatible with every other one (the type
checks `X.can_assign(Y)` and the *args/**kwargs element checks succeed), so only
the structural matching of parameters is decided here; variance is R07.a's job.
"""

from __future__ import annotations

import ast
import itertools
from typing import Any, Dict, Iterator, List, Optional, Sequence, Tuple

from ..minterp import AssertionFailed, Interp, Obj, Opaque, Sym, Unsupported
from ..model import AnchorError, Program
from .binder_model import KO, PO, POK, VK, VP, signatures

NParam = Tuple[str, bool, str]  # kind, has_default, name
POOL = ("p0", "p1", "p2", "q")


def named_variants(sig: Sequence[Tuple[str, bool]], pool: Sequence[str]) -> Iterator[Tuple[NParam, ...]]:
    named = [i for i, (k, _) in enumerate(sig) if k in (PO, POK, KO)]
    for names in itertools.permutations(pool, len(named)):
        out: List[NParam] = []
        it = iter(names)
        for i, (k, d) in enumerate(sig):
            if k == VP:
                out.append((k, d, "args"))
            elif k == VK:
                out.append((k, d, "kwargs"))
            else:
                out.append((k, d, next(it)))
        yield tuple(out)


def default_names(sig: Sequence[Tuple[str, bool]]) -> Tuple[NParam, ...]:
    return tuple((k, d, "args" if k == VP else "kwargs" if k == VK else f"p{i}") for i, (k, d) in enumerate(sig))


def outcome(sig: Sequence[NParam], npos: int, kws: Sequence[str]) -> str:
    filled = set()
    pos_params = [i for i, (k, _, _) in enumerate(sig) if k in (PO, POK)]
    has_vp = any(k == VP for k, _, _ in sig)
    has_vk = any(k == VK for k, _, _ in sig)
    if npos > len(pos_params) and not has_vp:
        return "too-many-positionals"
    for i in pos_params[:npos]:
        filled.add(i)
    name_to_i = {n: i for i, (k, _, n) in enumerate(sig) if k in (POK, KO)}
    for kw in kws:
        if kw in name_to_i:
            i = name_to_i[kw]
            if i in filled:
                return "multiple-values"
            filled.add(i)
        elif not has_vk:
            return "unexpected-keyword"
    for i, (k, d, _) in enumerate(sig):
        if k in (PO, POK, KO) and i not in filled and not d:
            return "missing-required"
    return "binds"


def call_shapes(max_pos: int, max_kw: int, pool: Sequence[str]) -> List[Tuple[int, Tuple[str, ...]]]:
    out = []
    for npos in range(max_pos + 1):
        for r in range(max_kw + 1):
            for kws in itertools.combinations(pool, r):
                out.append((npos, kws))
    return out


def fmt(sig: Sequence[NParam]) -> str:
    out: List[str] = []
    seen_po = False
    star = False
    for k, d, n in sig:
        nm = n + ("=d" if d else "")
        if k == PO:
            seen_po = True
            out.append(nm)
            continue
        if seen_po:
            out.append("/")
            seen_po = False
        if k == VP:
            out.append("*" + nm)
            star = True
        elif k == VK:
            out.append("**" + nm)
        elif k == KO:
            if not star:
                out.append("*")
                star = True
            out.append(nm)
        else:
            out.append(nm)
    if seen_po:
        out.append("/")
    return "(" + ", ".join(out) + ")"


SYMS = ()


def _record(log: List[Tuple[str, str]], receiver: Any, other: Any) -> Any:
    """`receiver.can_assign(other)`: the value typed `other` flows into a slot typed `receiver`."""
    rl = receiver.get("label", None) if isinstance(receiver, Obj) else repr(receiver)
    ol = other.get("label", None) if isinstance(other, Obj) and other._kind == "Ann" else repr(other)
    log.append((rl, ol))
    return Opaque("tv_map")


def flows(expected: Sequence[NParam], actual: Sequence[NParam], npos: int, kws: Sequence[str]) -> List[Tuple[str, str]]:
    """For a call shape that binds in both signatures: (actual slot, expected slot) for every argument."""
    out = []
    for sig_e, sig_a in ((expected, actual),):
        epos = [n for k, _, n in sig_e if k in (PO, POK)]
        apos = [n for k, _, n in sig_a if k in (PO, POK)]
        evp = next((n for k, _, n in sig_e if k == VP), None)
        avp = next((n for k, _, n in sig_a if k == VP), None)
        evk = next((n for k, _, n in sig_e if k == VK), None)
        avk = next((n for k, _, n in sig_a if k == VK), None)
        ekw = {n for k, _, n in sig_e if k in (POK, KO)}
        akw = {n for k, _, n in sig_a if k in (POK, KO)}
        for j in range(npos):
            e = epos[j] if j < len(epos) else evp
            a = apos[j] if j < len(apos) else avp
            out.append((f"A:{a}", f"E:{e}"))
        for k in kws:
            e = k if k in ekw else evk
            a = k if k in akw else avk
            out.append((f"A:{a}", f"E:{e}"))
    return out


class _Eq(Obj):
    """Model SigParameter / annotation with the equality of the real dataclasses, in the scenario
    the soundness check has to cover as well: same-named parameters carry equal annotations."""

    def key(self) -> Any:
        a = self._attrs
        if self._kind == "Ann":
            return ("Ann", str(a["label"]).split(":", 1)[-1])
        if self._kind == "SigParameter":
            return ("SigParameter", a["name"], repr(a["kind"]), a["default"] is None, a["annotation"].key())
        return (self._kind, id(self))

    def __eq__(self, other: object) -> bool:
        return isinstance(other, _Eq) and self.key() == other.key()

    def __ne__(self, other: object) -> bool:
        return not self.__eq__(other)

    def __hash__(self) -> int:
        return hash(self.key())


class CompatModel:
    def __init__(self, prog: Program) -> None:
        self.prog = prog
        self.fn = prog.func("signature", "Signature.can_assign")
        a = [x.arg for x in self.fn.args.args]
        if len(a) != 3:
            raise AnchorError("Signature.can_assign: expected (self, other, ctx)")
        self.p_self, self.p_other, self.p_ctx = a
        self.method_defs: Dict[Tuple[str, str], ast.FunctionDef] = {}
        if prog.has_func("signature", "Signature.get_param_of_kind"):
            self.method_defs[("Signature", "get_param_of_kind")] = prog.func("signature", "Signature.get_param_of_kind")
        flag = prog.module_assign("signature", "USE_CHECK_CALL_FOR_CAN_ASSIGN")
        self.use_check_call = bool(isinstance(flag, ast.Constant) and flag.value)

    def _sig(self, sig: Sequence[NParam], side: str = "", log: Optional[List[Tuple[str, str]]] = None) -> Obj:
        params: Dict[str, Obj] = {}
        for kind, d, name in sig:
            ann = _Eq("Ann", label=f"{side}:{name}")
            if log is not None:
                ann._attrs["can_assign"] = (lambda other, ctx=None, a=ann: _record(log, a, other))
            params[name] = _Eq(
                "SigParameter",
                name=name,
                kind=Sym(f"ParameterKind.{kind}"),
                default=Opaque(f"default:{name}") if d else None,
                annotation=ann,
                get_annotation=(lambda a=ann: a),
            )
        ret = _Eq("Ann", label=f"{side}:return")
        if log is not None:
            ret._attrs["can_assign"] = (lambda other, ctx=None, a=ret: _record(log, a, other))
        # every field of the real dataclass exists on the model object (non-generic, plain signature)
        return Obj(
            "Signature", parameters=params, is_asynq=False, return_value=ret, callable=None, impl=None, has_return_annotation=True, allow_call=False, evaluator=None,
            deprecated=None, typevars_of_params={}, all_typevars=set(),
        )

    def accepts(self, expected: Sequence[NParam], actual: Sequence[NParam], log: Optional[List[Tuple[str, str]]] = None) -> Tuple[bool, Optional[str]]:
        def isinstance_hook(v: Any, cls: str) -> Optional[bool]:
            if cls == "CanAssignError":
                return isinstance(v, Obj) and v._kind == "CanAssignError"
            if cls == "OverloadedSignature":
                return False
            return None

        def mk_error(args: List[Any]) -> Obj:
            m = args[0] if args else None
            label = m.label[4:] if isinstance(m, Opaque) and m.label.startswith("str:") else str(m)
            return Obj("CanAssignError", message=label)

        def var_helper(args: List[Any]) -> List[Any]:
            # can_assign_var_positional(my_param, their *args annotation, idx, ctx) /
            # can_assign_var_keyword(my_param, their **kwargs annotation, ctx): the element type of
            # their variadic parameter is checked against my parameter's annotation
            if log is not None and len(args) >= 2 and isinstance(args[0], Obj) and isinstance(args[1], Obj):
                _record(log, args[1], args[0].get("annotation", self.fn))
            return [Opaque("tv_map")]

        funcs = {
            "CanAssignError": mk_error,
            "can_assign_var_positional": var_helper,
            "can_assign_var_keyword": var_helper,
        }
        env = {
            self.p_self: self._sig(expected, "E", log),
            self.p_other: self._sig(actual, "A", log),
            self.p_ctx: Opaque("ctx"),
            "USE_CHECK_CALL_FOR_CAN_ASSIGN": self.use_check_call,
        }
        it = Interp(env, {}, SYMS, funcs, isinstance_hook, self.method_defs)
        try:
            res = it.run(self.fn)
        except Unsupported as u:
            raise AnchorError(f"Signature.can_assign cannot be modelled: {u}")
        except AssertionFailed as af:
            raise AnchorError(f"Signature.can_assign: assertion reached in the model: {af}")
        if isinstance(res, Obj) and res._kind == "CanAssignError":
            return False, res.get("message", self.fn)
        return True, None
