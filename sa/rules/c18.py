"""C18 - configuration layering follows the documented precedence."""

from __future__ import annotations

import ast
from typing import Dict, List, Optional, Set, Tuple

from ..cfg import CFG
from ..model import AnchorError, Program, dotted, kw, last_attr, norm, parent, walk_no_nested
from ..report import Check, guard
from .common import calls_in, guards_of, need_locals, returns_of, stmt_of


def _role(comp: ast.AST) -> Tuple[str, int]:
    """(field read through self, sign) where sign = -1 if the component is
    negated an odd number of times (not / unary minus), +1 otherwise."""
    sign = 1
    e = comp
    while True:
        if isinstance(e, ast.UnaryOp) and isinstance(e.op, (ast.Not, ast.USub)):
            sign = -sign
            e = e.operand
        elif isinstance(e, ast.Call) and last_attr(e) in ("len", "int", "bool") and len(e.args) == 1:
            e = e.args[0]
        else:
            break
    fields = [n.attr for n in ast.walk(e) if isinstance(n, ast.Attribute) and isinstance(n.value, ast.Name) and n.value.id == "self"]
    return (fields[0] if len(fields) == 1 else ",".join(fields) or "?", sign)


def r18_1(prog: Program, chk: Check) -> None:
    chk.rule(
        "R18.1",
        "ConfigOption.sort_key orders by (command line first, inclusion depth ascending, longest module prefix first)",
        floor=4,
    )
    fn = prog.func("options", "ConfigOption.sort_key")
    rets = returns_of(fn)
    site = prog.site("options", fn)
    if len(rets) != 1 or not isinstance(rets[0].value, ast.Tuple):
        chk.ob("R18.1", "options::ConfigOption.sort_key::tuple", False, site, "sort_key must return a single tuple")
        return
    comps = rets[0].value.elts
    want = [("from_command_line", -1, "command-line instances first (not from_command_line ascending)"),
            ("priority", 1, "lower inclusion depth first"),
            ("applicable_to", -1, "longest applicable_to prefix first (negated length)")]
    chk.ob("R18.1", "options::ConfigOption.sort_key::arity", len(comps) == 3, site, f"sort_key has {len(comps)} components, the documented order needs exactly 3")
    for i, (fld, sign, why) in enumerate(want):
        got = _role(comps[i]) if i < len(comps) else ("?", 0)
        chk.ob(
            "R18.1",
            f"options::ConfigOption.sort_key::component{i}={fld}",
            got == (fld, sign),
            site,
            f"component {i} is `{norm(comps[i]) if i < len(comps) else '-'}` (reads {got[0]}, sign {got[1]}); required: {why}",
        )


def _is_attr(e: ast.AST, base: str, attr: str) -> bool:
    return isinstance(e, ast.Attribute) and e.attr == attr and isinstance(e.value, ast.Name) and e.value.id == base


def _applicability_loop(fn: ast.FunctionDef) -> Optional[Tuple[ast.For, ast.If, str]]:
    """for X in <param>: if X.is_applicable_to(<param>): ...  ->  (loop, if, X)"""
    params = {a.arg for a in fn.args.args}
    for lp in walk_no_nested(fn):
        if isinstance(lp, ast.For) and isinstance(lp.iter, ast.Name) and lp.iter.id in params and isinstance(lp.target, ast.Name):
            x = lp.target.id
            if len(lp.body) == 1 and isinstance(lp.body[0], ast.If) and not lp.body[0].orelse:
                t = lp.body[0].test
                if (
                    isinstance(t, ast.Call)
                    and isinstance(t.func, ast.Attribute)
                    and t.func.attr == "is_applicable_to"
                    and isinstance(t.func.value, ast.Name)
                    and t.func.value.id == x
                    and len(t.args) == 1
                    and isinstance(t.args[0], ast.Name)
                    and t.args[0].id in params
                ):
                    return lp, lp.body[0], x
    return None


def r18_2(prog: Program, chk: Check) -> None:
    chk.rule("R18.2", "lookup: sorted by sort_key, first applicable wins, concatenated options append all then the default", floor=8)
    fl = prog.func("options", "Options.from_option_list")
    sorts = calls_in(fl, "sorted")
    ok = False
    for c in sorts:
        k = kw(c, "key")
        rev = kw(c, "reverse")
        uses_sort_key = k is not None and any(isinstance(x, ast.Attribute) and x.attr == "sort_key" for x in ast.walk(k))
        if uses_sort_key and (rev is None or (isinstance(rev, ast.Constant) and rev.value is False)):
            ok = True
    chk.ob("R18.2", "options::Options.from_option_list::sorted-by-sort_key", ok, prog.site("options", fl), "instances of each option must be sorted ascending with sort_key as the key")
    # grouping: D[inst.name].append(inst) (or setdefault(...).append) inside a loop over the instances
    grouped = False
    for lp in walk_no_nested(fl):
        if isinstance(lp, ast.For) and isinstance(lp.target, ast.Name):
            x = lp.target.id
            for c in calls_in(lp, "append"):
                recv = c.func.value  # type: ignore[attr-defined]
                keyexpr = None
                if isinstance(recv, ast.Subscript):
                    keyexpr = recv.slice
                elif isinstance(recv, ast.Call) and last_attr(recv) == "setdefault" and recv.args:
                    keyexpr = recv.args[0]
                if keyexpr is not None and _is_attr(keyexpr, x, "name") and c.args and isinstance(c.args[0], ast.Name) and c.args[0].id == x:
                    grouped = True
    chk.ob("R18.2", "options::Options.from_option_list::grouped-per-name", grouped, prog.site("options", fl), "instances must be grouped per option name before sorting")
    # explicit (command-line) instances precede config-file instances in the combined list
    order_ok = False
    for n in walk_no_nested(fl):
        if isinstance(n, (ast.List, ast.Tuple)) and len(n.elts) >= 2:
            idx_param = [i for i, e in enumerate(n.elts) if isinstance(e, ast.Starred) and isinstance(e.value, ast.Name) and e.value.id == "instances"]
            idx_file = [i for i, e in enumerate(n.elts) if isinstance(e, ast.Starred) and isinstance(e.value, ast.Call) and last_attr(e.value) == "parse_config_file"]
            if idx_param and idx_file and max(idx_param) < min(idx_file):
                order_ok = True
        if isinstance(n, ast.BinOp) and isinstance(n.op, ast.Add) and "parse_config_file" in norm(n.right) and "instances" in norm(n.left) and "parse_config_file" not in norm(n.left):
            order_ok = True
    chk.ob(
        "R18.2",
        "options::Options.from_option_list::command-line-before-file",
        order_ok,
        prog.site("options", fl),
        "explicit instances must precede the config-file instances (stable sort keeps them first among equal keys)",
    )
    # first applicable wins
    gv = prog.func("options", "ConfigOption.get_value_from_instances")
    m = _applicability_loop(gv)
    ok = False
    if m is not None:
        lp, iff, x = m
        ok = len(iff.body) == 1 and isinstance(iff.body[0], ast.Return) and iff.body[0].value is not None and _is_attr(iff.body[0].value, x, "value")
    tail_raise = [st for st in gv.body if isinstance(st, ast.Raise) and st.exc is not None and "NotFound" in norm(st.exc)]
    chk.ob(
        "R18.2",
        "options::ConfigOption.get_value_from_instances::first-applicable",
        ok and bool(tail_raise),
        prog.site("options", gv),
        "must return the value of the first instance applicable to the module path, else raise NotFound",
    )
    cv = prog.func("options", "ConcatenatedOption.get_value_from_instances")
    m = _applicability_loop(cv)
    ok = False
    if m is not None:
        lp, iff, x = m
        acc = None
        if len(iff.body) == 1:
            st = iff.body[0]
            if isinstance(st, ast.AugAssign) and isinstance(st.op, ast.Add) and isinstance(st.target, ast.Name) and _is_attr(st.value, x, "value"):
                acc = st.target.id
            elif isinstance(st, ast.Expr) and isinstance(st.value, ast.Call) and last_attr(st.value) == "extend" and isinstance(st.value.func.value, ast.Name) and st.value.args and _is_attr(st.value.args[0], x, "value"):  # type: ignore[attr-defined]
                acc = st.value.func.value.id  # type: ignore[attr-defined]
        if acc is not None and lp in cv.body:
            after = cv.body[cv.body.index(lp) + 1 :]
            adds_default = False
            for st in after:
                if isinstance(st, ast.AugAssign) and isinstance(st.target, ast.Name) and st.target.id == acc and _is_attr(st.value, "cls", "default_value"):
                    adds_default = True
                if isinstance(st, ast.Expr) and isinstance(st.value, ast.Call) and last_attr(st.value) == "extend" and st.value.args and _is_attr(st.value.args[0], "cls", "default_value"):
                    adds_default = True
            rets = returns_of(cv)
            # the built-in default is the last *instance* that Options._get_value_for_no_default hands over: adding
            # cls.default_value here as well doubles it (R18.6's list option has a non-empty default and decides that)
            gv = prog.func("options", "Options._get_value_for_no_default")
            default_is_an_instance = "option(option.default_value)" in norm(gv)
            ok = (adds_default != default_is_an_instance) and len(rets) == 1 and isinstance(rets[0].value, ast.Name) and rets[0].value.id == acc
    chk.ob(
        "R18.2",
        "options::ConcatenatedOption.get_value_from_instances::all-then-default",
        ok,
        prog.site("options", cv),
        "must append the value of every applicable instance in order and return the accumulated list; the built-in default comes last and once - either as the last instance handed over by Options._get_value_for_no_default or appended here, not both",
    )
    ia = prog.func("options", "ConfigOption.is_applicable_to")
    r = returns_of(ia)
    ok = False
    if len(r) == 1 and isinstance(r[0].value, ast.Compare) and len(r[0].value.ops) == 1 and isinstance(r[0].value.ops[0], ast.Eq):
        sides = [r[0].value.left, r[0].value.comparators[0]]
        pname = ia.args.args[1].arg if len(ia.args.args) > 1 else "?"
        whole = [e for e in sides if _is_attr(e, "self", "applicable_to")]
        pref = [
            e
            for e in sides
            if isinstance(e, ast.Subscript)
            and isinstance(e.value, ast.Name)
            and e.value.id == pname
            and isinstance(e.slice, ast.Slice)
            and e.slice.lower is None
            and e.slice.upper is not None
            and norm(e.slice.upper) == "len(self.applicable_to)"
        ]
        ok = len(whole) == 1 and len(pref) == 1
    chk.ob("R18.2", "options::ConfigOption.is_applicable_to::prefix", ok, prog.site("options", ia), "applicability must be `module_path[:len(self.applicable_to)] == self.applicable_to`")
    nd = prog.func("options", "Options._get_value_for_no_default")
    ok = False
    for n in walk_no_nested(nd):
        if isinstance(n, (ast.List, ast.Tuple)) and len(n.elts) >= 2:
            last = n.elts[-1]
            firsts = n.elts[:-1]
            if isinstance(last, ast.Call) and last.args and isinstance(last.args[0], ast.Attribute) and last.args[0].attr == "default_value":
                if all(isinstance(e, ast.Starred) and "self.options" in norm(e.value) for e in firsts):
                    ok = True
    chk.ob("R18.2", "options::Options._get_value_for_no_default::default-last", ok, prog.site("options", nd), "the default instance must come after all configured instances")
    gf = prog.func("options", "Options.get_value_for")
    ok = False
    for n in walk_no_nested(gf):
        if isinstance(n, ast.Try):
            for h in n.handlers:
                if h.type is not None and "NotFound" in norm(h.type) and any(isinstance(x, ast.Return) and x.value is not None and isinstance(x.value, ast.Attribute) and x.value.attr == "default_value" for x in h.body):
                    ok = True
    chk.ob("R18.2", "options::Options.get_value_for::fallback-default", ok, prog.site("options", gf), "get_value_for must fall back to the default when nothing applies")
    ie = prog.func("options", "Options.is_error_code_enabled")
    chk.ob(
        "R18.2",
        "options::Options.is_error_code_enabled::same-lookup",
        bool(calls_in(ie, "_get_value_for_no_default")),
        prog.site("options", ie),
        "error-code options must use the same lookup as every other option",
    )


def r18_3(prog: Program, chk: Check) -> None:
    chk.rule("R18.3", "inclusion depth and recursion guard: priority + 1 per extend_config, priority stored on every instance, seen-path test before open", floor=6)
    ps = prog.func("options", "_parse_config_section")
    pf = prog.func("options", "parse_config_file")
    need_locals(ps, "priority", "seen_paths", "module_path", "option_cls")
    need_locals(pf, "path", "seen_paths", "priority")
    rec = calls_in(ps, "parse_config_file")
    ok = len(rec) == 1 and norm(kw(rec[0], "priority") or ast.Constant(0)) == "priority + 1" and norm(kw(rec[0], "seen_paths") or ast.Constant(0)) == "seen_paths"
    chk.ob("R18.3", "options::_parse_config_section::extend-depth", ok, prog.site("options", ps), "extend_config must recurse with priority=priority + 1 and the accumulated seen_paths")
    rec2 = calls_in(ps, "_parse_config_section")
    ok = bool(rec2) and all(norm(kw(c, "priority") or ast.Constant(0)) == "priority" and norm(kw(c, "seen_paths") or ast.Constant(0)) == "seen_paths" for c in rec2)
    chk.ob("R18.3", "options::_parse_config_section::override-same-depth", ok, prog.site("options", ps), "override sections belong to the same file: priority must be passed unchanged")
    # every instance created in this function stores the priority
    ctors = [c for c in calls_in(ps, "option_cls", nested=False) if isinstance(c.func, ast.Name)]
    if len(ctors) < 2:
        raise AnchorError("_parse_config_section: option instance constructions not found")
    for i, c in enumerate(ctors):
        p = kw(c, "priority")
        chk.ob(
            "R18.3",
            f"options::_parse_config_section::instance-priority#{i + 1}",
            p is not None and norm(p) == "priority",
            prog.site("options", c),
            f"`{norm(c)[:70]}` does not store priority=priority: options of extended files tie with the including file and the TOML key order decides",
        )
        # second positional arg: the module path of the section
        chk.ob(
            "R18.3",
            f"options::_parse_config_section::instance-module-path#{i + 1}",
            len(c.args) >= 2 and norm(c.args[1]) == "module_path",
            prog.site("options", c),
            "instance must be applicable_to the section's module_path",
        )
    # recursion guard dominates the open
    g = CFG(pf)
    guard = None
    opener = None
    for n in walk_no_nested(pf):
        if isinstance(n, ast.If) and norm(n.test) == "path in seen_paths" and isinstance(n.body[-1], ast.Raise):
            guard = n
        if isinstance(n, ast.With) and "path.open" in norm(n.items[0].context_expr):
            opener = n
    ok = guard is not None and opener is not None and g.dominates(guard, opener)
    chk.ob("R18.3", "options::parse_config_file::seen-before-open", ok, prog.site("options", pf), "`if path in seen_paths: raise` must dominate opening the file")
    inner = calls_in(pf, "_parse_config_section")
    ok = len(inner) == 1 and norm(kw(inner[0], "seen_paths") or ast.Constant(0)) == "{path, *seen_paths}" and norm(kw(inner[0], "priority") or ast.Constant(0)) == "priority"
    chk.ob("R18.3", "options::parse_config_file::accumulates-seen", ok, prog.site("options", pf), "must pass seen_paths={path, *seen_paths} and its own priority down")
    res = [n for n in walk_no_nested(pf) if isinstance(n, ast.Assign) and norm(n.targets[0]) == "path" and "resolve" in norm(n.value)]
    chk.ob("R18.3", "options::parse_config_file::resolves-path", bool(res), prog.site("options", pf), "paths must be resolved before the seen test (else a/../a escapes the guard)")


def _arm_for_key(ps: ast.FunctionDef, key: str) -> Optional[ast.If]:
    for n in walk_no_nested(ps):
        if isinstance(n, ast.If) and norm(n.test) == f"key == '{key}'":
            return n
    return None


def r18_4(prog: Program, chk: Check) -> None:
    chk.rule("R18.4", "validation discipline: every key arm raises, type-checks the value before use, or hands it to the option's parse(); every parse() raises on a wrong type", floor=8)
    ps = prog.func("options", "_parse_config_section")
    need_locals(ps, "key", "value", "module_path", "override", "option_cls")
    site = prog.site("options", ps)
    # extend_config
    arm = _arm_for_key(ps, "extend_config")
    ok = arm is not None and isinstance(arm.body[0], ast.If) and norm(arm.body[0].test) == "not isinstance(value, str)" and isinstance(arm.body[0].body[-1], ast.Raise)
    chk.ob("R18.4", "options::_parse_config_section::key=extend_config", ok, site, "extend_config must be type-checked (str) before it is joined to the path")
    arm = _arm_for_key(ps, "overrides")
    t = norm(arm) if arm is not None else ""
    ok = (
        arm is not None
        and "if module_path:\n        raise InvalidConfigOption" in t
        and "not isinstance(value, (list, tuple))" in t
        and "not isinstance(override, dict)" in t
        and "'module' not in override or not isinstance(override['module'], str)" in t
    )
    chk.ob("R18.4", "options::_parse_config_section::key=overrides", ok, site, "overrides must reject nesting, non-lists, non-dict entries and entries without a string module")
    arm = _arm_for_key(ps, "disable_all")
    ok = False
    if arm is not None:
        first = arm.body[0]
        ok = isinstance(first, ast.If) and norm(first.test) == "not isinstance(value, bool)" and isinstance(first.body[-1], ast.Raise)
    chk.ob("R18.4", "options::_parse_config_section::key=disable_all", ok, site, "disable_all is used as a truth value without a bool check: disable_all = \"no\" disables everything")
    arm = _arm_for_key(ps, "module")
    ok = arm is not None and "raise InvalidConfigOption" in norm(arm) and "module_path == ()" in norm(arm)
    chk.ob("R18.4", "options::_parse_config_section::key=module", ok, site, "top-level `module` must be rejected")
    # default arm: unknown key raises, value goes through parse
    ok = False
    for n in walk_no_nested(ps):
        if isinstance(n, ast.Try) and any("registry[" in norm(b) for b in n.body):
            for h in n.handlers:
                if h.type is not None and "KeyError" in norm(h.type) and any(isinstance(x, ast.Raise) and x.exc is not None and "InvalidConfigOption" in norm(x.exc) for x in h.body):
                    ok = True
    chk.ob(
        "R18.4",
        "options::_parse_config_section::unknown-key",
        ok,
        site,
        "a key missing from ConfigOption.registry must raise InvalidConfigOption",
    )
    ctors = [c for c in calls_in(ps, "option_cls", nested=False) if isinstance(c.func, ast.Name)]
    for i, c in enumerate(ctors):
        a0 = c.args[0] if c.args else None
        ok = isinstance(a0, ast.Call) and norm(a0.func) == "option_cls.parse"
        chk.ob("R18.4", f"options::_parse_config_section::value-through-parse#{i + 1}", ok, prog.site("options", c), "option values must be produced by option_cls.parse(...)")
    # each concrete parse() raises InvalidConfigOption on mismatch
    n = 0
    for cname in prog.subclasses("ConfigOption", strict=True):
        ci = prog.cls(cname)
        fn = ci.methods.get("parse")
        if fn is None:
            continue
        n += 1
        raises = [r for r in ast.walk(fn) if isinstance(r, ast.Raise) and r.exc is not None and "InvalidConfigOption" in norm(r.exc)]
        delegates = any(isinstance(c.func, ast.Attribute) and c.func.attr == "parse" and isinstance(c.func.value, ast.Call) and last_attr(c.func.value) == "super" for c in calls_in(fn))
        chk.ob(
            "R18.4",
            f"{ci.module.name}::{cname}.parse::raises-on-mismatch",
            bool(raises) or delegates,
            prog.site(ci.module, fn),
            f"{cname}.parse never raises InvalidConfigOption: wrong value types are accepted silently",
        )
    chk.analysed["parse_methods"] = n
    if n < 5:
        raise AnchorError("fewer than 5 ConfigOption.parse implementations found")


def r18_5(prog: Program, chk: Check) -> None:
    chk.rule("R18.5", "every option instance built from command-line data carries from_command_line=True", floor=3)
    fn = prog.func("name_check_visitor", "NameCheckVisitor.prepare_constructor_kwargs")
    n = 0
    for c in calls_in(fn, None, nested=False):
        nm = last_attr(c)
        if isinstance(c.func, ast.Name) and (nm == "option_cls" or (nm in prog.classes and prog.is_subclass(nm, "ConfigOption"))):
            n += 1
            v = kw(c, "from_command_line")
            chk.ob(
                "R18.5",
                f"name_check_visitor::NameCheckVisitor.prepare_constructor_kwargs::{nm}#{n}",
                isinstance(v, ast.Constant) and v.value is True,
                prog.site("name_check_visitor", c),
                f"`{norm(c)[:60]}` is built from CLI data without from_command_line=True: a config-file value can override the command line",
            )
    if n < 3:
        raise AnchorError("prepare_constructor_kwargs: fewer than 3 option constructions")
    t = norm(fn)
    chk.ob(
        "R18.5",
        "name_check_visitor::NameCheckVisitor.prepare_constructor_kwargs::passes-instances",
        "Options.from_option_list(instances, config_file_path=config_file)" in t,
        prog.site("name_check_visitor", fn),
        "the CLI instances and the config file must be combined by Options.from_option_list",
    )


# ------------------------------------------------------------------- R18.6
def _mk_file(top, ov_a, ov_ab, name, extend: Optional[str], extend_first: bool, ov_order: int):
    """One configuration file as the dict tomli would return for [tool.pyanalyze]."""
    d: Dict[str, object] = {}
    if extend is not None and extend_first:
        d["extend_config"] = extend
    if top is not None:
        d[name] = top
    ovs = []
    if ov_a is not None:
        ovs.append({"module": "a", name: ov_a})
    if ov_ab is not None:
        ovs.append({"module": "a.b", name: ov_ab})
    if ov_order:
        ovs.reverse()
    if ovs:
        d["overrides"] = ovs
    if extend is not None and not extend_first:
        d["extend_config"] = extend
    return d


def _config_stacks(kind: str, thorough: bool):
    """(files, cmdline, option name, default, is_list) for every stack of the domain."""
    import itertools

    if kind in ("flag", "num"):
        vals = {"flag": (None, True, False), "num": (None, 1, 2)}[kind]
        cmds = [{}] + [{kind: v} for v in vals[1:]]
        per_file = list(itertools.product(vals, vals, vals))
        last_file = per_file if thorough else [(v, None, None) for v in vals]
        default = {"flag": False, "num": 7}[kind]
        for depth in (1, 2, 3):
            for combo in itertools.product(*([per_file] * (depth - 1) + [last_file if depth == 3 else per_file])):
                for extend_first in ((False, True) if depth > 1 else (False,)):
                    for ov_order in (0, 1):
                        if ov_order and not any(c[1] is not None and c[2] is not None for c in combo):
                            continue
                        files = [
                            _mk_file(c[0], c[1], c[2], kind, f"file{i + 1}" if i + 1 < depth else None, extend_first, ov_order)
                            for i, c in enumerate(combo)
                        ]
                        for cmd in cmds:
                            yield files, cmd, kind, default, False
    elif kind == "names":
        per_file = list(itertools.product((False, True), repeat=3))
        for depth in (1, 2, 3):
            for combo in itertools.product(*([per_file] * depth)):
                for extend_first in ((False, True) if depth > 1 else (False,)):
                    files = [
                        _mk_file([f"t{i}"] if c[0] else None, [f"a{i}"] if c[1] else None, [f"ab{i}"] if c[2] else None, "names", f"file{i + 1}" if i + 1 < depth else None, extend_first, 0)
                        for i, c in enumerate(combo)
                    ]
                    for cmd in ({}, {"names": ["cmd"]}):
                        yield files, cmd, "names", ["dflt"], True
    elif kind == "disable_all":
        sect = list(itertools.product((None, True, False), (None, True, False)))  # (disable_all, the code's own setting)
        # code_a is on by default, code_off is an opt-in code (off by default)
        for key, key_default in (("code_a", True), ("code_off", False)):
          for (da0, c0), (da1, c1) in itertools.product(sect, sect):
            top: Dict[str, object] = {}
            if da0 is not None:
                top["disable_all"] = da0
            if c0 is not None:
                top[key] = c0
            ov: Dict[str, object] = {"module": "a"}
            if da1 is not None:
                ov["disable_all"] = da1
            if c1 is not None:
                ov[key] = c1
            for base in (None, True, False):  # an extended file's top-level setting
                f0 = dict(top)
                if len(ov) > 1:
                    f0["overrides"] = [ov]
                files = [f0]
                if base is not None:
                    f0["extend_config"] = "file1"
                    files.append({key: base})
                for code, code_default in ((key, key_default), ("code_b", True)):
                    yield files, {}, code, code_default, False
                # -e / -d on the command line (`settings`), also with the value that is the code's built-in default
                for flag in (True, False):
                    yield files, {"settings": {key: flag}}, key, key_default, False


def _config_chunk(args):
    kind, part, nparts, thorough = args
    from ..model import Program as _P
    from . import config_model as cfgm

    model = cfgm.ConfigModel(_P())
    n = 0
    bad = []
    for idx, (files, cmd, name, default, is_list) in enumerate(_config_stacks(kind, thorough)):
        if idx % nparts != part:
            continue
        queries = [(name, mod) for mod in cfgm.MODULES]
        got = model.effective(files, cmd, queries)
        n += len(queries)
        for q in queries:
            want = cfgm.reference(files, cmd, name, q[1], default, is_list)
            g = got.get(q) if isinstance(got, dict) else got
            if g != want:
                bad.append((len(repr(files)) + len(repr(cmd)), {"files": files, "command_line": cmd, "option": name, "module": ".".join(q[1]) or "<top>", "effective": g, "documented": want}))
                break
    bad.sort(key=lambda t: t[0])
    return kind, n, len(bad), [b for _, b in bad[:4]]


REJECTED_CONFIGS = [
    ("unknown-key", [{"no_such_option": True}]),
    ("bool-given-int", [{"flag": 1}]),
    ("int-given-str", [{"num": "3"}]),
    ("int-given-bool", [{"num": True}]),
    ("list-given-str", [{"names": "x"}]),
    ("list-with-non-str", [{"names": ["x", 1]}]),
    ("nested-overrides", [{"overrides": [{"module": "a", "overrides": [{"module": "a.b", "flag": True}]}]}]),
    ("override-without-module", [{"overrides": [{"flag": True}]}]),
    ("override-not-a-table", [{"overrides": ["a"]}]),
    ("overrides-not-a-list", [{"overrides": {"module": "a"}}]),
    ("top-level-module-key", [{"module": "a", "flag": True}]),
    ("extend-config-not-a-string", [{"extend_config": 3}]),
    ("extend-config-missing-file", [{"extend_config": "nowhere"}]),
    ("recursive-inclusion-direct", [{"extend_config": "file0"}]),
    ("recursive-inclusion-indirect", [{"extend_config": "file1"}, {"extend_config": "file0"}]),
    ("disable-all-not-bool", [{"disable_all": "yes"}]),
    ("unknown-key-in-override", [{"overrides": [{"module": "a", "no_such_option": 1}]}]),
    ("unknown-key-in-extended-file", [{"extend_config": "file1"}, {"no_such_option": 1}]),
]


def r18_6(prog: Program, chk: Check) -> None:
    import multiprocessing as mp
    import os as _os

    from . import config_model as cfgm

    thorough = chk.tier == "thorough" and not _os.environ.get("VERIF_SELFTEST")
    chk.rule(
        "R18.6",
        "configuration layering as a finite model: parse_config_file, _parse_config_section, the option classes' parse / is_applicable_to / sort_key / "
        "get_value_from_instances and Options.from_option_list / for_module / get_value_for are interpreted from their AST on stacks of up to 3 chained files "
        "(top-level value, overrides for a and a.b in both list orders, extend_config before or after the settings), every command-line value and six queried "
        "modules; the effective value equals the documented layering for a boolean, an integer and a concatenated list option and for disable_all; every "
        "malformed configuration of a fixed list raises InvalidConfigOption",
        floor=20,
    )
    procs = 2 if _os.environ.get("VERIF_SELFTEST") else min(16, _os.cpu_count() or 1)
    kinds = ["flag", "names", "disable_all"] + (["num"] if thorough else [])
    tasks = []
    for k in kinds:
        np_ = procs * 2 if k in ("flag", "num") else max(1, procs // 2)
        tasks += [(k, i, np_, thorough) for i in range(np_)]
    with mp.get_context("fork").Pool(procs) as pl:
        results = pl.map(_config_chunk, tasks)
    site = prog.site("options", prog.func("options", "_parse_config_section"))
    agg: Dict[str, List[object]] = {}
    for kind, n, nbad, wit in results:
        a = agg.setdefault(kind, [0, 0, []])
        a[0] += n  # type: ignore[operator]
        a[1] += nbad  # type: ignore[operator]
        a[2] = (a[2] + wit)[:4]  # type: ignore[operator]
    total = 0
    label = {"flag": "boolean-option", "num": "integer-option", "names": "concatenated-list-option", "disable_all": "disable_all"}
    for kind, (n, nbad, wit) in sorted(agg.items()):
        total += int(n)  # type: ignore[arg-type]
        chk.ob("R18.6", f"options::layering-model::effective-value::{label[kind]}", nbad == 0, site,
               f"{n} lookups, {nbad} stacks with a value that differs from the documented layering" + (f"; smallest: {wit[0]}" if wit else ""), witness=wit)  # type: ignore[index]
    model = cfgm.ConfigModel(prog)
    for name, files in REJECTED_CONFIGS:
        total += 1
        got = model.effective(files, {}, [("flag", ())])
        ok = isinstance(got, tuple) and got[0] == "error" and got[1] == "InvalidConfigOption"
        chk.ob("R18.6", f"options::layering-model::rejects::{name}", ok, site,
               f"configuration {files} must raise InvalidConfigOption; the model run gives {got if isinstance(got, tuple) else 'a value (accepted)'}")
    chk.model_evaluations += total
    chk.analysed["config_model"] = {"lookups": total, "thorough_domain": thorough}


def r18_7(prog: Program, chk: Check) -> None:
    from .c10 import copies_share_no_state

    copies_share_no_state(prog, chk, "R18.7")  # a per-module view made with replace() must not share a memo with the other views


def run(prog: Program, chk: Check) -> None:
    guard(chk, r18_1, prog, chk)
    guard(chk, r18_2, prog, chk)
    guard(chk, r18_3, prog, chk)
    guard(chk, r18_4, prog, chk)
    guard(chk, r18_5, prog, chk)
    guard(chk, r18_6, prog, chk)
    guard(chk, r18_7, prog, chk)
