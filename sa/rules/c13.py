"""C13 - static and runtime views of declarations agree: sibling parity."""

from __future__ import annotations

import ast
from typing import Dict, List, Optional, Set, Tuple

from ..model import AnchorError, Program, dotted, kw, last_attr, norm, parent, walk_no_nested
from ..report import Check, guard
from .common import calls_in, guards_of

CANON = {"Type": "type", "Tuple": "tuple", "typing.Type": "type"}


def _forms_of_test(test: ast.AST, subject: str) -> List[str]:
    out: List[str] = []
    for n in ast.walk(test):
        if isinstance(n, ast.Call):
            nm = last_attr(n)
            if nm in ("is_typing_name", "is_instance_of_typing_name") and len(n.args) == 2 and norm(n.args[0]) == subject and isinstance(n.args[1], ast.Constant):
                out.append(str(n.args[1].value))
            elif nm == "_is_tuple" and n.args and norm(n.args[0]) == subject:
                out.append("tuple")
            elif nm == "is_union" and n.args and norm(n.args[0]) == subject:
                out.append("Union")
            elif nm == "isinstance" and len(n.args) == 2 and norm(n.args[0]) == subject and norm(n.args[1]) == "type":
                out.append("<class>")
        elif isinstance(n, ast.Compare) and len(n.ops) == 1 and isinstance(n.ops[0], ast.Is) and norm(n.left) == subject:
            r = norm(n.comparators[0])
            if r in ("type",):
                out.append("type")
            elif r.startswith("typing."):
                out.append(r.split(".", 1)[1])
            elif r in ("Callable", "AsynqCallable"):
                out.append(r)
    return [CANON.get(f, f) for f in out]


def form_arms(fn: ast.FunctionDef, subject: str) -> Dict[str, ast.If]:
    arms: Dict[str, ast.If] = {}
    for n in walk_no_nested(fn):
        if isinstance(n, ast.If):
            for f in _forms_of_test(n.test, subject):
                arms.setdefault(f, n)
    return arms


# forms that legitimately exist on one route only
ROUTE_EXCEPTIONS = {
    "Optional": "typing.Optional[X] evaluates to Union[X, None] at run time, so the runtime route never sees it",
    "AsynqCallable": "AsynqCallable[...] is an instance at run time and is handled by _type_from_runtime directly",
    "TypeAliasType": "a subscripted PEP 695 alias only exists as a runtime object; names of aliases reach the AST route as TypeAliasValue",
}


def r13_1(prog: Program, chk: Check) -> None:
    chk.rule(
        "R13.1",
        "special-form parity: the subscripted typing forms understood by the AST/string route and by the runtime "
        "route are the same set, and every AST-route arm that takes members[0] checks the arity first",
        floor=16,
    )
    ast_fn = prog.func("annotations", "_type_from_subscripted_value")
    rt_fn = prog.func("annotations", "_value_of_origin_args")
    a = form_arms(ast_fn, "root")
    r = form_arms(rt_fn, "origin")
    chk.analysed["ast_route_forms"] = sorted(a)
    chk.analysed["runtime_route_forms"] = sorted(r)
    if len(a) < 10 or len(r) < 10:
        raise AnchorError(f"special-form arms not recognised (ast={len(a)}, runtime={len(r)})")
    for f in sorted(set(a) | set(r)):
        if f in ROUTE_EXCEPTIONS:
            continue
        chk.ob(
            "R13.1",
            f"annotations::special-form::{f}",
            f in a and f in r,
            prog.site("annotations", a.get(f) or r.get(f) or ast_fn),
            f"`{f}[...]` is handled by the {'AST/string' if f in a else 'runtime'} route only: the same annotation means a different type when quoted",
        )
    # arity discipline on the AST route
    for f, arm in sorted(a.items()):
        uses0 = [n for n in ast.walk(ast.Module(body=arm.body, type_ignores=[])) if isinstance(n, ast.Subscript) and norm(n.value) == "members" and isinstance(n.slice, ast.Constant) and n.slice.value == 0]
        unpack = [n for n in ast.walk(ast.Module(body=arm.body, type_ignores=[])) if isinstance(n, ast.Assign) and isinstance(n.targets[0], ast.Tuple) and norm(n.value) == "members"]
        if not uses0:
            continue
        guarded = all(
            any("len(members)" in norm(g) for g, _ in guards_of(u, ast_fn))
            or any(isinstance(s, ast.If) and "len(members)" in norm(s.test) and isinstance(s.body[-1], ast.Return) and s.lineno < u.lineno for s in arm.body)
            for u in uses0
        )
        chk.ob(
            "R13.1",
            f"annotations::_type_from_subscripted_value::arity::{f}",
            guarded,
            prog.site("annotations", arm),
            f"the {f} arm indexes members[0] without checking len(members): `{f}[()]`-like strings raise IndexError (internal_error)",
        )


def r13_2(prog: Program, chk: Check) -> None:
    chk.rule(
        "R13.2",
        "signature-builder parity: both the def route and the inspect route evaluate a parameter annotation with "
        "allow_unpack=kind.allow_unpack() and pass it through translate_vararg_type(kind, ...)",
        floor=4,
    )
    for m, q in (("functions", "compute_parameters"), ("arg_spec", "ArgSpecCache._get_type_for_parameter")):
        fn = prog.func(m, q)
        evals = [c for c in calls_in(fn) if last_attr(c) in ("value_of_annotation", "type_from_runtime")]
        ok_unpack = bool(evals) and all(kw(c, "allow_unpack") is not None and norm(kw(c, "allow_unpack")) == "kind.allow_unpack()" for c in evals)
        chk.ob("R13.2", f"{m}::{q}::allow_unpack", ok_unpack, prog.site(m, fn), "parameter annotations must be evaluated with allow_unpack=kind.allow_unpack()")
        tr = [c for c in calls_in(fn, "translate_vararg_type") if c.args and norm(c.args[0]) == "kind"]
        chk.ob("R13.2", f"{m}::{q}::translate_vararg_type", bool(tr), prog.site(m, fn), "the evaluated annotation must be passed through translate_vararg_type(kind, ...) (*args: T means tuple[T, ...])")
    # kinds are created from inspect's numeric kinds
    mk = prog.func("arg_spec", "ArgSpecCache._make_sig_parameter")
    chk.ob("R13.2", "arg_spec::ArgSpecCache._make_sig_parameter::kind-from-inspect", "ParameterKind(parameter.kind)" in norm(mk), prog.site("arg_spec", mk), "the inspect route must convert inspect.Parameter.kind by value")
    cp = prog.func("functions", "compute_parameters")
    t = norm(cp)
    order = [t.find("ParameterKind.POSITIONAL_ONLY, arg"), t.find("ParameterKind.POSITIONAL_OR_KEYWORD, arg"), t.find("ParameterKind.VAR_POSITIONAL, node.args.vararg"), t.find("ParameterKind.KEYWORD_ONLY, arg"), t.find("ParameterKind.VAR_KEYWORD, node.args.kwarg")]
    chk.ob("R13.2", "functions::compute_parameters::kind-order", all(o >= 0 for o in order) and order == sorted(order), prog.site("functions", cp), "the def route must list parameters as posonly, positional-or-keyword, *args, keyword-only, **kwargs (the order inspect.signature uses)")
    chk.notes.append("not decided: an un-annotated *args/**kwargs is typed tuple[Any, ...]/dict[str, Any] by the def route and Any by the inspect route (representational difference)")


def r13_3(prog: Program, chk: Check) -> None:
    chk.rule(
        "R13.3",
        "coroutine wrapping parity: both signature builders wrap the return type of an async function whether or not a return "
        "annotation exists (the wrapping is conditioned on async-ness only, and on the caller not having supplied the final type)",
        floor=2,
    )
    from .common import guards_of

    # inspect route
    fs = prog.func("arg_spec", "ArgSpecCache.from_signature")
    wraps = [c for c in calls_in(fs, "make_coro_type", nested=False)]
    if not wraps:
        raise AnchorError("from_signature: make_coro_type call not found")
    for c in wraps:
        extra = []
        has_async = False
        for t, inbody in guards_of(c, fs):
            names = {x.id for x in ast.walk(t) if isinstance(x, ast.Name)}
            if names <= {"is_async"}:
                has_async = has_async or inbody
            elif names <= {"returns"}:
                pass  # an explicitly supplied return type is final
            else:
                extra.append(("" if inbody else "not ") + norm(t))
        chk.ob("R13.3", "arg_spec::ArgSpecCache.from_signature::coroutine-wrap", has_async and not extra, prog.site("arg_spec", c),
               f"make_coro_type is applied only when {extra}: an async def without a return annotation is then typed Any by the inspect route and Coroutine[Any, Any, Any] by the def route")
    # def route
    cv = prog.func("functions", "compute_value_of_function")
    wraps = [c for c in calls_in(cv, "make_coro_type", nested=False)]
    if not wraps:
        raise AnchorError("compute_value_of_function: make_coro_type call not found")
    for c in wraps:
        gs = guards_of(c, cv)
        extra = [norm(t) for t, inbody in gs if "return_annotation" in norm(t) or "result is" in norm(t)]
        has_async = any(inbody and "AsyncFunctionDef" in norm(t) for t, inbody in gs)
        chk.ob("R13.3", "functions::compute_value_of_function::coroutine-wrap", has_async and not extra, prog.site("functions", c),
               f"the def route must wrap every non-generator async def; extra conditions: {extra}")


def r13_4(prog: Program, chk: Check) -> None:
    chk.rule(
        "R13.4",
        "forward references are resolved in the context of the declaration that contains them: the runtime route parses "
        "__forward_arg__ through its own context and never reads typing's evaluation cache (__forward_value__ / "
        "__forward_evaluated__ / _evaluate), which is shared by every module that wrote the same subscript",
        floor=2,
    )
    m = "annotations"
    banned = {"__forward_value__", "__forward_evaluated__", "_evaluate", "__forward_code__"}
    hits = []
    for mod, q, fn in prog.iter_functions():
        if mod != m:
            continue
        for n in walk_no_nested(fn):
            if isinstance(n, ast.Attribute) and n.attr in banned:
                hits.append((q, n))
            if isinstance(n, ast.Call) and last_attr(n) in ("getattr", "hasattr") and len(n.args) >= 2 and isinstance(n.args[1], ast.Constant) and n.args[1].value in banned:
                hits.append((q, n))
    for q, n in hits:
        chk.ob("R13.4", f"{m}::{q}::reads-typing-forwardref-cache", False, prog.site(m, n),
               f"`{norm(n)[:60]}` reads typing's cached evaluation of a ForwardRef: after get_type_hints() in one module, List['Item'] in another module resolves to the first module's Item")
    fn = prog.func(m, "_type_from_runtime")
    uses_arg = [n for n in ast.walk(fn) if isinstance(n, ast.Attribute) and n.attr == "__forward_arg__"]
    chk.ob("R13.4", f"{m}::_type_from_runtime::parses-forward-arg", bool(uses_arg), prog.site(m, fn), "the ForwardRef arm must evaluate val.__forward_arg__ (the source text) itself")
    chk.ob("R13.4", f"{m}::no-cache-reads", not hits, f"pyanalyze/{m}.py", f"{len(hits)} reads of typing's ForwardRef evaluation cache", nontrivial=False)


# ------------------------------------------------------------------- R13.5
def _form_of(expr: str) -> str:
    """The outermost typing form of an annotation expression of the vocabulary."""
    e = ast.parse(expr, mode="eval").body
    if isinstance(e, ast.Constant) and isinstance(e.value, str):
        return "forward reference string"
    if isinstance(e, ast.BinOp):
        return "X | Y"
    if isinstance(e, ast.Subscript):
        return ast.unparse(e.value).split(".")[-1] + "[...]"
    return "bare name"


def _annot_chunk(args):
    part, nparts, depth2 = args
    from ..model import Program as _P
    from . import annot_model as amod

    model = amod.AnnotModel(_P())
    ns = amod.namespace()
    classes: Dict[str, Dict[str, object]] = {}
    n = 0

    def note(key: str, bad: bool, detail) -> None:
        c = classes.setdefault(key, {"n": 0, "bad": 0, "witness": []})
        c["n"] += 1  # type: ignore[operator]
        if bad:
            c["bad"] += 1  # type: ignore[operator]
            w = c["witness"]
            w.append(detail)  # type: ignore[union-attr]
            w.sort(key=lambda d: (len(d["annotation"]), repr(d)))  # type: ignore[union-attr]
            del w[3:]  # type: ignore[arg-type]

    for idx, (expr, flags) in enumerate(amod.vocabulary(depth2)):
        if idx % nparts != part:
            continue
        try:
            obj = eval(expr, dict(ns))  # CPython builds the runtime form; pyanalyze is not involved
        except Exception:
            continue  # not an annotation CPython accepts at run time: only one route exists
        n += 1
        form = _form_of(expr)
        a, ea = model.via_ast(expr, ns, **flags)
        s_, es = model.via_string(expr, ns, **flags)
        r, er = model.via_runtime(obj, ns, **flags)
        d = {"annotation": expr, "flags": flags, "ast": amod.describe(a), "string": amod.describe(s_), "runtime": amod.describe(r), "errors": {"ast": ea, "runtime": er}}
        crashed = any(isinstance(x, tuple) for x in (a, s_, r))
        note(f"{form}::no route raises", crashed, d)
        if crashed:
            continue
        note(f"{form}::AST route == string route", not (a == s_ and bool(ea) == bool(es)), d)
        note(f"{form}::AST route == runtime route", not (a == r), d)
        note(f"{form}::an annotation is rejected by both routes or by neither", bool(ea) != bool(er), d)
    return n, classes


def r13_5(prog: Program, chk: Check) -> None:
    import multiprocessing as mp
    import os as _os

    chk.rule(
        "R13.5",
        "annotation evaluation as a finite model: the AST route (annotations._Visitor, _type_from_value, _type_from_subscripted_value, _make_callable_from_value), the string route "
        "(_eval_forward_ref) and the runtime route (_type_from_runtime, _value_of_origin_args, _callable_args_from_runtime, make_type_var_value) with their shared helpers are "
        "interpreted from their AST on a vocabulary of ~800 annotation expressions (classes, Optional / Union / |, old and new style generics, the tuple forms, Literal, type[], "
        "Callable, Annotated, Final / ClassVar, Required / NotRequired / ReadOnly, Unpack, TypeGuard / TypeIs, NewType, TypeVar, forward-reference strings, a module class that shadows a builtin, nested one level) and 16 TypedDict classes declared once with annotation expressions and once with strings; the "
        "runtime object is built by CPython from the same expression; the three resulting values are equal (unions compare as sets, as MultiValuedValue.__eq__ does) and an "
        "annotation is rejected by all routes or by none",
        floor=20,
    )
    selftest = bool(_os.environ.get("VERIF_SELFTEST"))
    procs = 2 if selftest else min(16, _os.cpu_count() or 1)
    with mp.get_context("fork").Pool(procs) as pl:
        results = pl.map(_annot_chunk, [(i, procs * 2, True) for i in range(procs * 2)])
    total = 0
    merged: Dict[str, Dict[str, object]] = {}
    for n, classes in results:
        total += n
        for k, c in classes.items():
            m = merged.setdefault(k, {"n": 0, "bad": 0, "witness": []})
            m["n"] += c["n"]  # type: ignore[operator]
            m["bad"] += c["bad"]  # type: ignore[operator]
            m["witness"] = sorted(list(m["witness"]) + list(c["witness"]), key=lambda d: (len(d["annotation"]), repr(d)))[:3]  # type: ignore[arg-type]
    # TypedDict classes: the same declaration with real annotation expressions and with string annotations
    from . import annot_model as amod

    model = amod.AnnotModel(prog)
    ns = amod.namespace()
    td_bad, td_n = [], 0
    for desc, real, quoted in amod.typeddict_pairs():
        td_n += 1
        r, er = model.via_runtime(real, ns)
        q, eq = model.via_runtime(quoted, ns)
        if isinstance(r, tuple) or isinstance(q, tuple) or r != q or bool(er) != bool(eq):
            td_bad.append({"annotation": desc, "with_expressions": amod.describe(r), "with_strings": amod.describe(q), "errors": {"expressions": er, "strings": eq}})
    merged["TypedDict class::string annotations == annotation expressions"] = {"n": td_n, "bad": len(td_bad), "witness": td_bad[:3]}
    total += td_n
    chk.model_evaluations += total * 3
    chk.analysed["annotation_model"] = {"annotations": total, "routes": 3}
    site = prog.site("annotations", prog.func("annotations", "_value_of_origin_args"))
    for k, c in sorted(merged.items()):
        wit = c["witness"]
        chk.ob("R13.5", f"annotations::route-model::{k}", int(c["bad"]) == 0, site,  # type: ignore[arg-type]
               f"{c['n']} annotations, {c['bad']} failing" + (f"; smallest: {wit[0]}" if wit else ""), witness=wit)  # type: ignore[index]


# ------------------------------------------------------------------- R13.6
def _signature_chunk(args):
    part, nparts, stride = args
    from ..model import AnchorError as _AE
    from ..model import Program as _P
    from . import annot_model as amod
    from . import signature_model as smod

    model = smod.SignatureModel(_P())
    ns = amod.namespace()
    classes: Dict[str, Dict[str, object]] = {}
    unsupported = []
    n = 0

    def note(key: str, bad: bool, d) -> None:
        c = classes.setdefault(key, {"n": 0, "bad": 0, "witness": []})
        c["n"] += 1  # type: ignore[operator]
        if bad:
            c["bad"] += 1  # type: ignore[operator]
            w = c["witness"]
            w.append(d)  # type: ignore[union-attr]
            w.sort(key=lambda x: (len(x["definition"]), repr(x)))  # type: ignore[union-attr]
            del w[3:]  # type: ignore[arg-type]

    for idx, src in enumerate(smod.definitions(stride)):
        if idx % nparts != part:
            continue
        n += 1
        d = {"definition": src}
        try:
            rd = model.via_def(src, ns)
            ri = model.via_inspect(src, ns)
        except _AE as e:
            unsupported.append({**d, "why": str(e)[:300]})
            continue
        if rd[0] == "crash" or ri[0] == "crash":
            note("no builder raises", True, {**d, "error": rd[1] if rd[0] == "crash" else ri[1]})
            continue
        note("no builder raises", False, d)
        pd, retd, _ = rd
        pi, reti, _ = ri
        kd = [smod.param_key(x) for x in pd]
        ki = [smod.param_key(x) for x in pi]
        dd = {**d, "from_def": [smod.describe_param(x) for x in pd], "from_inspect": [smod.describe_param(x) for x in pi]}
        note("names and order", [k[0] for k in kd] != [k[0] for k in ki], dd)
        note("kinds", [k[1] for k in kd] != [k[1] for k in ki], dd)
        note("defaults", [k[2] for k in kd] != [k[2] for k in ki], dd)
        note("annotations (up to the representations of `no annotation`)", [k[3] for k in kd] != [k[3] for k in ki], dd)
        if not src.startswith("async") and retd is not None:
            note("return annotation", retd != reti, {**d, "from_def": amod.describe(retd), "from_inspect": amod.describe(reti)})
    return n, classes, unsupported


def r13_6(prog: Program, chk: Check) -> None:
    import multiprocessing as mp
    import os as _os

    chk.rule(
        "R13.6",
        "the two signature builders as a finite model: functions.compute_parameters (with _visit_default, translate_vararg_type) on the def node and ArgSpecCache.from_signature / "
        "_make_sig_parameter / _get_type_for_parameter on the inspect.Signature that CPython builds for the same def are interpreted from their AST (annotations through the "
        "annotation routes of R13.5, ParameterKind read from its class body) on ~800 def headers over every parameter kind, defaults, annotations (also quoted), bare `*`, `/`, "
        "double-underscore names, sync and async: names, kinds, defaults and annotations of the parameters agree (the three representations of `no annotation` are identified)",
        floor=4,
    )
    selftest = bool(_os.environ.get("VERIF_SELFTEST"))
    procs = 2 if selftest else min(16, _os.cpu_count() or 1)
    stride = 8 if selftest else 1 if chk.tier == "thorough" else 3
    with mp.get_context("fork").Pool(procs) as pl:
        results = pl.map(_signature_chunk, [(i, procs * 2, stride) for i in range(procs * 2)])
    total = 0
    merged: Dict[str, Dict[str, object]] = {}
    unsupported = []
    for n, classes, uns in results:
        total += n
        unsupported += uns
        for k, c in classes.items():
            m = merged.setdefault(k, {"n": 0, "bad": 0, "witness": []})
            m["n"] += c["n"]  # type: ignore[operator]
            m["bad"] += c["bad"]  # type: ignore[operator]
            m["witness"] = sorted(list(m["witness"]) + list(c["witness"]), key=lambda x: (len(x["definition"]), repr(x)))[:3]  # type: ignore[arg-type]
    chk.model_evaluations += total * 2
    chk.analysed["signature_model"] = {"definitions": total, "not_modelled": len(unsupported)}
    site = prog.site("functions", prog.func("functions", "compute_parameters"))
    for k, c in sorted(merged.items()):
        wit = c["witness"]
        chk.ob("R13.6", f"functions::signature-model::{k}", int(c["bad"]) == 0, site,  # type: ignore[arg-type]
               f"{c['n']} definitions, {c['bad']} failing" + (f"; smallest: {wit[0]}" if wit else ""), witness=wit)  # type: ignore[index]
    if unsupported:
        raise AnchorError(f"{len(unsupported)} definitions cannot be modelled; first: {unsupported[0]}")


def run(prog: Program, chk: Check) -> None:
    guard(chk, r13_1, prog, chk)
    guard(chk, r13_2, prog, chk)
    guard(chk, r13_3, prog, chk)
    guard(chk, r13_4, prog, chk)
    guard(chk, r13_5, prog, chk)
    guard(chk, r13_6, prog, chk)
