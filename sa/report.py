"""Obligations, known findings, evidence files, exit codes."""

from __future__ import annotations

import hashlib
import json
import os
import sys
import time
from dataclasses import dataclass, field
from typing import Any, Dict, List, Optional

VERIF = os.path.dirname(os.path.dirname(os.path.abspath(__file__)))
KNOWN_FINDINGS = os.path.join(VERIF, "known_findings.json")


@dataclass
class Obligation:
    rule: str  # e.g. "R10.1"
    key: str  # construct key: module::qualname::construct
    ok: bool
    site: str  # file:line
    reason: str  # what was required / what fails
    witness: Any = None
    nontrivial: bool = True  # required more than locating the anchor


@dataclass
class Check:
    prop: str
    tier: str
    obligations: List[Obligation] = field(default_factory=list)
    analysed: Dict[str, Any] = field(default_factory=dict)
    floors: Dict[str, int] = field(default_factory=dict)
    rules: Dict[str, str] = field(default_factory=dict)  # rule id -> text
    notes: List[str] = field(default_factory=list)
    errors: List[str] = field(default_factory=list)  # analysis errors (exit 2)
    started: float = field(default_factory=time.time)
    model_evaluations: int = 0  # abstract runs of an extracted model (each compared with a reference)
    _seen: Dict[Any, int] = field(default_factory=dict)

    def rule(self, rid: str, text: str, floor: int = 1) -> None:
        self.rules[rid] = text
        self.floors[rid] = floor

    def ob(
        self,
        rule: str,
        key: str,
        ok: bool,
        site: str,
        reason: str,
        witness: Any = None,
        nontrivial: bool = True,
    ) -> bool:
        # construct keys must be unique per rule: known findings are matched on them
        n = self._seen.get((rule, key), 0) + 1
        self._seen[(rule, key)] = n
        if n > 1:
            key = f"{key}#{n}"
        self.obligations.append(Obligation(rule, key, bool(ok), site, reason, witness, nontrivial))
        return bool(ok)

    def error(self, msg: str) -> None:
        self.errors.append(msg)

    def count(self, rule: str) -> int:
        return sum(1 for o in self.obligations if o.rule == rule)


def guard(chk: "Check", fn, *args) -> None:
    """Run one rule; an anchor it cannot recognise is an analysis error of that rule only."""
    from .model import AnchorError

    try:
        fn(*args)
    except AnchorError as e:
        chk.error(f"{getattr(fn, '__name__', 'rule')}: anchor not found: {e}")


def load_known() -> List[Dict[str, Any]]:
    if not os.path.exists(KNOWN_FINDINGS):
        return []
    with open(KNOWN_FINDINGS) as f:
        return json.load(f)["findings"]


def finish(chk: Check, digest: str, stats: Dict[str, int], seed: int = 0, write: bool = True) -> int:
    """Print the report, write evidence, return the exit code."""
    known = [k for k in load_known() if k["property"] == chk.prop]
    known_keys = {(k["rule"], k["construct_key"]): k for k in known if k.get("status") == "known"}

    # anti-vacuity floors
    for rid, floor in chk.floors.items():
        n = chk.count(rid)
        if n < floor:
            chk.error(f"rule {rid}: {n} obligations generated, below the floor {floor} (anchor drift?)")

    # duplicate keys would make known-finding matching ambiguous
    seen: Dict[tuple, int] = {}
    for o in chk.obligations:
        seen[(o.rule, o.key)] = seen.get((o.rule, o.key), 0) + 1

    failed = [o for o in chk.obligations if not o.ok]
    new = [o for o in failed if (o.rule, o.key) not in known_keys]
    matched = [o for o in failed if (o.rule, o.key) in known_keys]

    out_dir = os.path.join(VERIF, "out", "replay")
    lines: List[str] = []
    print(
        f"[{chk.prop}] analysed {stats.get('modules', 0)} modules / {stats.get('classes', 0)} classes / "
        f"{stats.get('functions', 0)} functions, tree digest {digest}"
    )
    for rid in chk.rules:
        n = chk.count(rid)
        bad = sum(1 for o in failed if o.rule == rid)
        print(f"[{chk.prop}] {rid}: {n} obligations, {n - bad} discharged  -- {chk.rules[rid]}")
    for o in matched:
        k = known_keys[(o.rule, o.key)]
        print(f"KNOWN-FINDING: property={chk.prop} {o.rule} {o.key} @ {o.site}: {k.get('what', o.reason)}")

    code = 0
    if chk.errors:
        for e in chk.errors:
            print(f"ANALYSIS-ERROR property={chk.prop} {e}")
        code = 2
    if new:  # a violation found by a rule that ran is reported even if another rule could not anchor
        if write:
            os.makedirs(out_dir, exist_ok=True)
        for o in new:
            h = hashlib.sha256(f"{o.rule}|{o.key}".encode()).hexdigest()[:10]
            path = os.path.join(out_dir, f"{chk.prop}-{h}.json")
            with open(path, "w") if write else open(os.devnull, "w") as f:
                json.dump(
                    {
                        "property": chk.prop,
                        "rule": o.rule,
                        "construct_key": o.key,
                        "site": o.site,
                        "reason": o.reason,
                        "witness": o.witness,
                        "rule_text": chk.rules.get(o.rule, ""),
                    },
                    f,
                    indent=1,
                    default=str,
                )
            print(f"{o.site}: {o.rule} {o.key}: {o.reason}")
            if o.witness:
                print(f"    witness: {json.dumps(o.witness, default=str)[:600]}")
            print(f"VIOLATION property={chk.prop} replay={path}")
        code = 1

    if write:
        write_evidence(chk, digest, stats, seed, len(new), matched, code)
    if code == 0:
        print(
            f"[{chk.prop}] OK: {len(chk.obligations)} obligations, {len(chk.obligations) - len(failed)} discharged, "
            f"{len(matched)} known findings"
        )
    return code


def write_evidence(
    chk: Check,
    digest: str,
    stats: Dict[str, int],
    seed: int,
    n_new: int,
    matched: List[Obligation],
    code: int,
) -> None:
    ev_dir = os.path.join(VERIF, "evidence")
    os.makedirs(ev_dir, exist_ok=True)
    obs = chk.obligations
    distinct = {(o.rule, o.key) for o in obs if o.nontrivial}
    per_rule: Dict[str, Dict[str, Any]] = {}
    for rid, text in chk.rules.items():
        mine = [o for o in obs if o.rule == rid]
        per_rule[rid] = {
            "text": text,
            "obligations": len(mine),
            "discharged": sum(1 for o in mine if o.ok),
            "floor": chk.floors.get(rid, 0),
        }
    # samples: up to 4 obligations per rule, written out
    samples: List[Dict[str, Any]] = []
    for rid in chk.rules:
        mine = [o for o in obs if o.rule == rid]
        for o in mine[:4]:
            samples.append(
                {"rule": o.rule, "construct": o.key, "site": o.site, "ok": o.ok, "obligation": o.reason}
            )
    ev = {
        "property_id": chk.prop,
        "tier": chk.tier,
        "seed": seed,
        "level": "other",
        "coverage": {
            "explanation": (
                "Static analysis of pyanalyze's own source (AST / class hierarchy / CFG / def-use / folded "
                "tables), re-read from the working tree on this run. Each obligation is one construct "
                "(class, method, arm, call site, table row) that a rule requires to have a given shape; "
                "'discharged' counts those that have it. Only the structural clauses named in DESIGN.md "
                "are decided, not the behavioural statement as a whole."
            ),
            "evaluations": len(obs) + chk.model_evaluations,
            "distinct_nontrivial": len(distinct) + chk.model_evaluations,
            "rule": (
                "obligations are enumerated from the source by each rule (one per matching construct); "
                "distinct = distinct (rule, construct key); non-trivial = the obligation required a "
                "shape/flow/table check beyond locating the anchor. Where a rule interprets an extracted "
                "model (sa/minterp.py) every distinct abstract input compared with the reference counts as "
                "one evaluation; they are aggregated into one obligation per outcome class."
            ),
            "model_evaluations": chk.model_evaluations,
            "obligations": len(obs),
            "discharged": sum(1 for o in obs if o.ok),
            "known_findings_matched": [
                {"rule": o.rule, "construct": o.key, "site": o.site} for o in matched
            ],
            "new_violations": n_new,
            "rules": per_rule,
            "analysed": {**stats, **chk.analysed, "tree_digest": digest},
            "samples": samples or [{"note": "no obligations generated"}],
            "exhaustive": True,
            "checker_cmd": f"./check {chk.prop} --tier {chk.tier}",
            "trusted_base": [
                "CPython ast module of /venv/bin/python",
                "reference tables encoded in sa/rules (language reference, typing spec, docs/*.md)",
                "sa engines (model, cfg, flow)",
            ],
            "analysis_errors": chk.errors,
            "notes": chk.notes,
            "exit_code": code,
        },
        "assumptions": [
            "the structural clause is a necessary condition of the behavioural property, not the property itself",
            "call resolution is by name + class hierarchy; dynamic dispatch through values not visible in source is not followed",
        ],
        "wall_s": round(time.time() - chk.started, 3),
        "violations": n_new,
    }
    with open(os.path.join(ev_dir, f"{chk.prop}.json"), "w") as f:
        json.dump(ev, f, indent=1, default=str)
